// C09, commit store: bufmodulestore.NewCommitStore keeps one small JSON file per commit
// (<digest type>/<registry>/<dashless commit id>.json: version, owner, module, create_time,
// digest) and serves it by ModuleKey (digest pinned by the requesting key) or by CommitKey.
//
// Same style as the module-data store: a generated commit (module name, commit id, b5 or b4
// digest, create time) is stored through the CommitStore over a storageos temp dir wrapped by the
// faultx bucket, directly or through the bufmodulecache commit provider. PER CASE: crash at every
// event k in [0,E], kill inside the atomic close (both hook stages), every single fault in every
// variant (incl. write-behind loss), torn writes at structural and strided byte offsets, each
// followed by a clean store; and every tampering operator on the stored JSON of a complete
// entry, followed by a clean store. After EVERY step a fresh store reads the commit by
// ModuleKey and by CommitKey (order drawn).
//
// Oracle (reference = the generated commit): a read is a miss, or an error, or a non-nil Commit
// whose accessors either return an error (acceptable only after tampering) or return exactly
// what the requesting key pins: by ModuleKey the served digest must equal the pinned digest —
// a digest mismatch is never accepted silently. Without tampering a hit must return exactly what
// was stored (module name, commit id, digest, create time), and a later healthy store must
// succeed and be followed by an exact hit.
package c09

import (
	"context"
	"encoding/json"
	"errors"
	"fmt"
	"os"
	"path/filepath"
	"strings"
	"testing"
	"time"

	"github.com/bufbuild/buf/private/bufpkg/bufmodule"
	"github.com/bufbuild/buf/private/bufpkg/bufmodule/bufmodulecache"
	"github.com/bufbuild/buf/private/bufpkg/bufmodule/bufmodulestore"
	"github.com/bufbuild/buf/private/pkg/storage/storageos"
	"github.com/bufbuild/buf/private/pkg/thread"
	"github.com/bufbuild/bufverif/internal/evid"
	"github.com/bufbuild/bufverif/internal/faultx"
	"pgregory.net/rapid"
)

type commitTamper struct {
	Op     string `json:"op"`
	Value  string `json:"value,omitempty"`  // replacement field value
	Offset int    `json:"offset,omitempty"` // flip offset / truncate length
	Mask   byte   `json:"mask,omitempty"`
	Label  string `json:"label,omitempty"` // class label of the replacement value
}

type commitStep struct {
	Put    *putSpec      `json:"put,omitempty"`
	Tamper *commitTamper `json:"tamper,omitempty"`
}

type commitCase struct {
	Name           string       `json:"name"`   // registry/owner/module
	Commit         string       `json:"commit"` // uuid
	Digest         string       `json:"digest"` // b5:<hex> | shake256:<hex>
	OtherDigest    string       `json:"other_digest"`
	CreateSec      int64        `json:"create_sec"`
	CreateNsec     int64        `json:"create_nsec"`
	ViaProvider    bool         `json:"via_provider"`
	CommitKeyFirst bool         `json:"commit_key_first"`
	Draws          []int        `json:"draws"`
	Steps          []commitStep `json:"steps,omitempty"`
}

func (c commitCase) canon() string { c.Steps = nil; b, _ := json.Marshal(c); return string(b) }
func (c commitCase) draw(i int) int {
	if len(c.Draws) == 0 {
		return i
	}
	return c.Draws[i%len(c.Draws)]
}
func (c commitCase) createTime() time.Time { return time.Unix(c.CreateSec, c.CreateNsec).UTC() }

// filePath is the documented location of the entry relative to the cache directory.
func (c commitCase) filePath() string {
	dt := "b5"
	if strings.HasPrefix(c.Digest, "shake256:") {
		dt = "shake256"
	}
	registry := c.Name[:strings.IndexByte(c.Name, '/')]
	return dt + "/" + registry + "/" + strings.ReplaceAll(c.Commit, "-", "") + ".json"
}

func genCommitCase(t *rapid.T) commitCase {
	m := faultx.GenModule(t, 1, 1)
	prefix := "b5:"
	if rapid.IntRange(0, 2).Draw(t, "b4key") == 0 {
		prefix = "shake256:"
	}
	hexOf := func(label string) string {
		return strings.SplitN(faultx.RefManifestDigest(map[string][]byte{"x": faultx.Content(uint32(rapid.IntRange(0, 1<<30).Draw(t, label)), 8)}), ":", 2)[1]
	}
	c := commitCase{
		Name:           m.Name,
		Commit:         m.Commit,
		Digest:         prefix + hexOf("digest"),
		OtherDigest:    prefix + hexOf("otherdigest"),
		CreateSec:      int64(rapid.IntRange(1, 2_000_000_000).Draw(t, "sec")),
		CreateNsec:     int64(rapid.SampledFrom([]int{0, 0, 1, 999_999_999, 123_456_000}).Draw(t, "nsec")),
		ViaProvider:    rapid.IntRange(0, 2).Draw(t, "provider") == 0,
		CommitKeyFirst: rapid.Bool().Draw(t, "commitkeyfirst"),
	}
	if c.OtherDigest == c.Digest {
		c.OtherDigest = prefix + strings.Repeat("ab", 64)
	}
	c.Draws = rapid.SliceOfN(rapid.IntRange(0, 1<<30), 16, 16).Draw(t, "draws")
	return c
}

// ---------------------------------------------------------------------------------------------
// reference

type commitRef struct {
	c         commitCase
	key       bufmodule.ModuleKey
	commitKey bufmodule.CommitKey
	commit    bufmodule.Commit
}

func newCommitRef(c commitCase) (*commitRef, error) {
	key, err := faultx.NewKey(c.Name, c.Commit, c.Digest)
	if err != nil {
		return nil, err
	}
	commitKey, err := bufmodule.ModuleKeyToCommitKey(key)
	if err != nil {
		return nil, err
	}
	ct := c.createTime()
	return &commitRef{c: c, key: key, commitKey: commitKey, commit: bufmodule.NewCommit(key, func() (time.Time, error) { return ct, nil })}, nil
}

type commitDelegate struct{ ref *commitRef }

func (d commitDelegate) GetCommitsForModuleKeys(_ context.Context, keys []bufmodule.ModuleKey) ([]bufmodule.Commit, error) {
	out := make([]bufmodule.Commit, len(keys))
	for i := range keys {
		out[i] = d.ref.commit
	}
	return out, nil
}

func (d commitDelegate) GetCommitsForCommitKeys(_ context.Context, keys []bufmodule.CommitKey) ([]bufmodule.Commit, error) {
	out := make([]bufmodule.Commit, len(keys))
	for i := range keys {
		out[i] = d.ref.commit
	}
	return out, nil
}

// ---------------------------------------------------------------------------------------------
// reading and judging

const (
	cMiss     = "miss"
	cGetErr   = "get-error"
	cHitOK    = "hit-ok"
	cHitErr   = "hit-digest-mismatch"
	cHitOther = "hit-other-error"
	cNil      = "nil-commit-as-hit"
	cWrongDig = "hit-wrong-digest"
	cWrong    = "hit-wrong"
)

// inspectCommit judges one served Commit. pinned is the digest the requesting key pins ("" for a
// read by CommitKey, which pins nothing). exact demands everything equal to what was stored.
func inspectCommit(ref *commitRef, cm bufmodule.Commit, pinned string, exact bool) (outcome, detail string) {
	if cm == nil {
		return cNil, "the store reported the key as found but the Commit is nil"
	}
	mk := cm.ModuleKey()
	if mk == nil {
		return cNil, "the served Commit has a nil ModuleKey"
	}
	if mk.CommitID().String() != ref.c.Commit {
		return cWrong, fmt.Sprintf("served commit id %s, requested %s", mk.CommitID(), ref.c.Commit)
	}
	d, err := mk.Digest()
	if err != nil {
		var dm *bufmodule.DigestMismatchError
		if errors.As(err, &dm) {
			return cHitErr, "ModuleKey().Digest(): " + firstLine(err.Error())
		}
		return cHitOther, "ModuleKey().Digest(): " + firstLine(err.Error())
	}
	if pinned != "" && d.String() != pinned {
		return cWrongDig, fmt.Sprintf("ModuleKey().Digest() returned %s without an error, the requesting key pins %s", d.String(), pinned)
	}
	ct, err := cm.CreateTime()
	if err != nil {
		return cHitOther, "CreateTime(): " + firstLine(err.Error())
	}
	if exact {
		if d.String() != ref.c.Digest {
			return cWrong, fmt.Sprintf("served digest %s, stored %s", d.String(), ref.c.Digest)
		}
		if mk.FullName().String() != ref.c.Name {
			return cWrong, fmt.Sprintf("served module name %s, stored %s", mk.FullName(), ref.c.Name)
		}
		if !ct.Equal(ref.c.createTime()) {
			return cWrong, fmt.Sprintf("served create time %s, stored %s", ct.UTC().Format(time.RFC3339Nano), ref.c.createTime().Format(time.RFC3339Nano))
		}
	}
	return cHitOK, ""
}

// readCommits reads by ModuleKey or by CommitKey through the store.
func readCommits(ctx context.Context, store bufmodulestore.CommitStore, ref *commitRef, byCommitKey, exact bool) (outcome, detail string) {
	defer func() {
		if p := recover(); p != nil {
			outcome, detail = "panic", fmt.Sprint(p)
		}
	}()
	var found []bufmodule.Commit
	var nNotFound int
	var err error
	pinned := ref.c.Digest
	if byCommitKey {
		var nf []bufmodule.CommitKey
		found, nf, err = store.GetCommitsForCommitKeys(ctx, []bufmodule.CommitKey{ref.commitKey})
		nNotFound = len(nf)
		pinned = ""
	} else {
		var nf []bufmodule.ModuleKey
		found, nf, err = store.GetCommitsForModuleKeys(ctx, []bufmodule.ModuleKey{ref.key})
		nNotFound = len(nf)
	}
	if err != nil {
		return cGetErr, firstLine(err.Error())
	}
	if len(found)+nNotFound != 1 {
		return cWrong, fmt.Sprintf("one key requested, %d found and %d not found", len(found), nNotFound)
	}
	if len(found) == 0 {
		return cMiss, ""
	}
	return inspectCommit(ref, found[0], pinned, exact)
}

func judgeCommit(st histState, how, outcome, detail string) (key, msg string) {
	pre := "commit store read " + how + ": "
	switch outcome {
	case cNil, "panic":
		return "commit-store-nil-commit-as-hit", pre + detail
	case cWrongDig:
		return "commit-served-with-wrong-digest", pre + "a digest mismatch was accepted silently: " + detail
	case cWrong:
		return "commit-served-wrong-content", pre + detail
	case cHitErr, cHitOther:
		if !st.tampered {
			if st.disturbed {
				return "commit-failed-store-served-as-hit", pre + "after a failed/interrupted store (no tampering) the commit is served as a hit but is not readable: " + detail
			}
			return "commit-hit-unreadable-without-tampering", pre + detail
		}
	}
	if st.mustHit && outcome != cHitOK {
		if st.disturbed {
			return "commit-store-did-not-repair", pre + "a later successful store of the same commit did not repair the entry: the read is " + outcome + " " + detail
		}
		return "commit-stored-entry-not-served", pre + "a successful store is followed by " + outcome + " " + detail
	}
	return "", ""
}

// ---------------------------------------------------------------------------------------------
// history

type commitHistory struct {
	ctx     context.Context
	c       commitCase
	ref     *commitRef
	dir     string
	st      histState
	buckets []*faultx.Bucket
	events  []faultx.Event
	trace   []string
	lastTam string
}

func newCommitHistory(ctx context.Context, c commitCase, ref *commitRef) (*commitHistory, error) {
	dir, err := os.MkdirTemp("", "c09commit")
	if err != nil {
		return nil, err
	}
	return &commitHistory{ctx: ctx, c: c, ref: ref, dir: dir}, nil
}

func (h *commitHistory) close() {
	storageos.SetVerifAtomicCloseHook(nil)
	for _, b := range h.buckets {
		b.Reap()
	}
	_ = os.RemoveAll(h.dir)
}

func (h *commitHistory) put(ps putSpec) (v *violation, err error) {
	under, err := storageos.NewProvider().NewReadWriteBucket(h.dir)
	if err != nil {
		return nil, err
	}
	plan := faultx.Count()
	switch ps.Mode {
	case "clean", "hook":
	case "crash":
		plan = faultx.CrashAt(ps.K)
		if ps.N > 0 {
			plan = faultx.CrashInWrite(ps.K, ps.N)
		}
	case "fail":
		fv, ok := variantByName(ps.V)
		if !ok {
			return nil, fmt.Errorf("bad variant %q", ps.V)
		}
		plan = faultx.FailAt(ps.K, fv)
		if ps.N > 0 && fv == faultx.VarShortWrite {
			plan = faultx.ShortWriteAt(ps.K, ps.N)
		}
	default:
		return nil, fmt.Errorf("bad put mode %q", ps.Mode)
	}
	fb := faultx.New(under, plan)
	h.buckets = append(h.buckets, fb)
	if ps.Mode == "hook" {
		fired := false
		storageos.SetVerifAtomicCloseHook(func(stage, tmp, final string) error {
			if stage == ps.Stage && !fired {
				fired = true
				fb.CrashNow()
				return faultx.ErrCrashed
			}
			return nil
		})
		defer func() {
			storageos.SetVerifAtomicCloseHook(nil)
			if fired {
				evid.R().Class("commit-hook-stage-reached:" + ps.Stage)
			} else {
				evid.R().Class("commit-hook-stage-not-reached:" + ps.Stage)
			}
		}()
	}
	store := bufmodulestore.NewCommitStore(discardLogger, fb)
	thread.SetParallelism(1)
	var perr error
	func() {
		defer func() {
			if p := recover(); p != nil {
				v = &violation{"commit-store-nil-commit-as-hit", fmt.Sprintf("panic while storing/reading through the commit cache: %v", p)}
			}
		}()
		if h.c.ViaProvider {
			provider := bufmodulecache.NewCommitProvider(discardLogger, commitDelegate{h.ref}, store)
			var commits []bufmodule.Commit
			commits, perr = provider.GetCommitsForModuleKeys(h.ctx, []bufmodule.ModuleKey{h.ref.key})
			if perr == nil && !fb.Crashed() {
				if len(commits) != 1 {
					v = &violation{"commit-served-wrong-content", fmt.Sprintf("the commit provider returned %d commits for one key", len(commits))}
					return
				}
				st := h.st
				st.disturbed = st.disturbed || fb.Disturbed()
				st.mustHit = false
				o, d := inspectCommit(h.ref, commits[0], h.ref.c.Digest, !st.tampered)
				evid.R().Class("commit-provider-read:" + o)
				if key, msg := judgeCommit(st, "through the bufmodulecache commit provider", o, d); key != "" {
					v = &violation{key, msg}
				}
			}
		} else {
			perr = store.PutCommits(h.ctx, []bufmodule.Commit{h.ref.commit})
		}
	}()
	h.events = fb.Log()
	disturbed := fb.Disturbed()
	if disturbed {
		h.st.disturbed = true
	}
	h.st.mustHit = perr == nil && !disturbed && !h.st.tampered
	h.trace = append(h.trace, fmt.Sprintf("store(%s) -> err=%v disturbed=%v events=%d", describePut(ps), perr != nil, disturbed, len(h.events)))
	if v == nil && perr != nil && !disturbed && !h.st.tampered {
		if !h.st.disturbed {
			return nil, fmt.Errorf("undisturbed commit store on an undisturbed directory failed: %w", perr)
		}
		v = &violation{"commit-store-did-not-repair", "a later store of the same commit (no fault injected, nothing tampered) fails: " + firstLine(perr.Error())}
	}
	return v, nil
}

func (h *commitHistory) tamper(ts commitTamper) error {
	h.st.tampered = true
	h.st.mustHit = false
	h.trace = append(h.trace, fmt.Sprintf("tamper(%+v)", ts))
	h.lastTam = ts.Op
	if ts.Label != "" {
		h.lastTam += "=" + ts.Label
	} else if ts.Op == "garbage" {
		h.lastTam += "=" + ts.Value
	}
	full := filepath.Join(h.dir, filepath.FromSlash(h.c.filePath()))
	data, err := os.ReadFile(full)
	if err != nil {
		return err
	}
	setField := func(name string, value any, remove bool) error {
		var m map[string]any
		if err := json.Unmarshal(data, &m); err != nil {
			return err
		}
		if _, ok := m[name]; !ok {
			return fmt.Errorf("stored commit has no field %q: %s", name, data)
		}
		if remove {
			delete(m, name)
		} else {
			m[name] = value
		}
		out, err := json.Marshal(m)
		if err != nil {
			return err
		}
		return os.WriteFile(full, out, 0o644)
	}
	switch ts.Op {
	case "digest", "owner", "module", "version", "create_time":
		return setField(ts.Op, ts.Value, false)
	case "remove-digest", "remove-owner", "remove-create_time", "remove-version":
		return setField(strings.TrimPrefix(ts.Op, "remove-"), nil, true)
	case "flip":
		if ts.Offset >= len(data) || ts.Mask == 0 {
			return fmt.Errorf("bad flip %+v on %d bytes", ts, len(data))
		}
		data[ts.Offset] ^= ts.Mask
		return os.WriteFile(full, data, 0o644)
	case "truncate":
		return os.Truncate(full, int64(ts.Offset))
	case "garbage":
		return os.WriteFile(full, []byte(ts.Value), 0o644)
	case "delete":
		return os.Remove(full)
	}
	return fmt.Errorf("bad tamper op %q", ts.Op)
}

func (h *commitHistory) check() (*violation, error) {
	order := []bool{false, true}
	if h.c.CommitKeyFirst {
		order = []bool{true, false}
	}
	for _, byCommitKey := range order {
		bucket, err := storageos.NewProvider().NewReadWriteBucket(h.dir)
		if err != nil {
			return nil, err
		}
		store := bufmodulestore.NewCommitStore(discardLogger, bucket)
		how := "by ModuleKey"
		if byCommitKey {
			how = "by CommitKey"
		}
		o, d := readCommits(h.ctx, store, h.ref, byCommitKey, !h.st.tampered)
		evid.R().Eval()
		evid.R().Class("commit-read " + how + ":" + o)
		h.trace = append(h.trace, "read "+how+" -> "+o)
		if o == cNil || o == "panic" {
			evid.R().Class("commit-nil-commit-after-tamper(" + h.lastTam + ")")
		}
		if key, msg := judgeCommit(h.st, how, o, d); key != "" {
			return &violation{key, msg + "; history: " + strings.Join(h.trace, "; ")}, nil
		}
	}
	return nil, nil
}

func runCommitSteps(ctx context.Context, c commitCase, ref *commitRef, steps []commitStep) (*violation, *commitHistory, error) {
	h, err := newCommitHistory(ctx, c, ref)
	if err != nil {
		return nil, nil, err
	}
	defer h.close()
	for _, s := range steps {
		switch {
		case s.Put != nil:
			v, err := h.put(*s.Put)
			if err != nil {
				return nil, h, err
			}
			if v != nil {
				v.msg += "; history: " + strings.Join(h.trace, "; ")
				return v, h, nil
			}
		case s.Tamper != nil:
			if err := h.tamper(*s.Tamper); err != nil {
				return nil, h, fmt.Errorf("tamper: %w", err)
			}
		}
		if v, err := h.check(); err != nil || v != nil {
			return v, h, err
		}
	}
	return nil, h, nil
}

func cleanCommitPut() commitStep { return commitStep{Put: &putSpec{Mode: "clean"}} }

func commitTamperList(c commitCase, size int) []commitTamper {
	otherType := "shake256:" + strings.SplitN(c.OtherDigest, ":", 2)[1]
	sameHexOtherType := "shake256:" + strings.SplitN(c.Digest, ":", 2)[1]
	if strings.HasPrefix(c.Digest, "shake256:") {
		otherType = "b5:" + strings.SplitN(c.OtherDigest, ":", 2)[1]
		sameHexOtherType = "b5:" + strings.SplitN(c.Digest, ":", 2)[1]
	}
	parts := strings.Split(c.Name, "/")
	out := []commitTamper{
		{Op: "digest", Value: c.OtherDigest, Label: "other-wellformed-same-type"},
		{Op: "digest", Value: otherType, Label: "other-wellformed-other-type"},
		{Op: "digest", Value: sameHexOtherType, Label: "same-value-other-type"},
		{Op: "digest", Value: c.Digest[:len(c.Digest)-2], Label: "too-short"},
		{Op: "digest", Value: "b5:zz", Label: "not-hex"},
		{Op: "digest", Value: "sha256:" + strings.Repeat("0", 64), Label: "unknown-type"},
		{Op: "digest", Value: "", Label: "empty"},
		{Op: "remove-digest"},
		{Op: "create_time", Value: time.Unix(c.CreateSec+86400, 0).UTC().Format(time.RFC3339Nano), Label: "other-valid-time"},
		{Op: "create_time", Value: "0001-01-01T00:00:00Z", Label: "zero-time"},
		{Op: "create_time", Value: "yesterday", Label: "unparseable"},
		{Op: "remove-create_time"},
		{Op: "owner", Value: parts[1] + "x", Label: "other-valid-owner"},
		{Op: "owner", Value: "", Label: "empty"},
		{Op: "owner", Value: "Not A Valid Owner/", Label: "invalid"},
		{Op: "remove-owner"},
		{Op: "module", Value: parts[2] + "2"},
		{Op: "version", Value: "v2"},
		{Op: "remove-version"},
		{Op: "garbage", Value: "not json"},
		{Op: "garbage", Value: "{}"},
		{Op: "garbage", Value: "null"},
		{Op: "garbage", Value: "[]"},
		{Op: "garbage", Value: ""},
		{Op: "delete"},
		{Op: "truncate", Offset: 0},
		{Op: "truncate", Offset: size - 1},
	}
	for i := 0; i < 4; i++ {
		out = append(out, commitTamper{Op: "truncate", Offset: 1 + c.draw(i)%(size-1)})
		out = append(out, commitTamper{Op: "flip", Offset: c.draw(4+i) % size, Mask: byte(c.draw(8+i)%255) + 1})
	}
	return out
}

type commitStats struct{ crash, faults, torn, tamperings int }

func sweepCommitCase(ctx context.Context, c commitCase, st *commitStats, fail func(key, msg string, c commitCase) bool) error {
	r := evid.R()
	ref, err := newCommitRef(c)
	if err != nil {
		return err
	}
	run := func(steps []commitStep) (bool, *commitHistory, error) {
		v, h, err := runCommitSteps(ctx, c, ref, steps)
		if err != nil {
			return false, h, fmt.Errorf("%w (steps %s)", err, mustJSON(steps))
		}
		if v != nil {
			cc := c
			cc.Steps = steps
			return fail(v.key, v.msg, cc), h, nil
		}
		return true, h, nil
	}
	// (0) the fault-free store + read is itself judged; it also yields the event log and the file
	goOn, h, err := run([]commitStep{cleanCommitPut()})
	if err != nil || !goOn {
		return err
	}
	events := h.events
	E := len(events)
	if E < 3 {
		return fmt.Errorf("clean commit store has only %d events", E)
	}
	size := 0
	for _, e := range events {
		if e.Kind == faultx.KindWrite {
			size += e.Len
		}
	}
	if size < 20 {
		return fmt.Errorf("stored commit file has only %d bytes", size)
	}
	r.Class("commit-history:fault-free-store+read")
	for k := 0; k <= E; k++ {
		st.crash++
		if goOn, _, err := run([]commitStep{{Put: &putSpec{Mode: "crash", K: k}}, cleanCommitPut()}); err != nil || !goOn {
			return err
		}
	}
	for _, stage := range []string{"closed-temp", "renamed"} {
		st.crash++
		if goOn, _, err := run([]commitStep{{Put: &putSpec{Mode: "hook", Stage: stage}}, cleanCommitPut()}); err != nil || !goOn {
			return err
		}
	}
	r.ClassN("commit-history:crash+restore", E+3)
	for k := 0; k < E; k++ {
		variants := faultx.Variants(events[k].Kind)
		if events[k].Kind == faultx.KindClose {
			variants = append(variants, faultx.VarCloseLost)
		}
		for _, fv := range variants {
			st.faults++
			if goOn, _, err := run([]commitStep{{Put: &putSpec{Mode: "fail", K: k, V: fv.String()}}, cleanCommitPut()}); err != nil || !goOn {
				return err
			}
			r.Class("commit-history:fault(" + events[k].KindS + "/" + fv.String() + ")+restore")
		}
		if events[k].Kind == faultx.KindWrite && events[k].Len > 2 {
			cuts := map[int]bool{1: true, events[k].Len - 1: true, events[k].Len / 2: true}
			stride := r.Pick(16, 4)
			for n := 1 + c.draw(0)%stride; n < events[k].Len; n += stride {
				cuts[n] = true
			}
			for _, n := range faultx.SortedIntKeys(cuts) {
				st.torn++
				if goOn, _, err := run([]commitStep{{Put: &putSpec{Mode: "crash", K: k, N: n}}, cleanCommitPut()}); err != nil || !goOn {
					return err
				}
				if goOn, _, err := run([]commitStep{{Put: &putSpec{Mode: "fail", K: k, V: faultx.VarShortWrite.String(), N: n}}, cleanCommitPut()}); err != nil || !goOn {
					return err
				}
			}
			r.ClassN("commit-history:torn-write+restore", 2*len(cuts))
		}
	}
	for _, ts := range commitTamperList(c, size) {
		ts := ts
		st.tamperings++
		if goOn, _, err := run([]commitStep{cleanCommitPut(), {Tamper: &ts}, cleanCommitPut()}); err != nil || !goOn {
			return err
		}
		label := ts.Op
		if ts.Label != "" {
			label += "=" + ts.Label
		}
		r.Class("commit-history:tamper(" + label + ")+restore")
	}
	return nil
}

var commitCrash, commitFaults, commitTorn, commitTamperings int

// directedNilCommit is the regression for the fixed finding commit-store-nil-commit-as-hit: a
// shake256-pinned commit whose stored digest is replaced by a well-formed b5 digest (and an
// entry that is valid JSON but incomplete) used to be reported as found with a nil Commit.
func directedNilCommit(ctx context.Context, t *testing.T, r *evid.Recorder) {
	defer r.Begin(t)()
	c := commitCase{
		Name:        "buf.build/acme/weather",
		Commit:      "00000000-0000-0000-0000-000000000001",
		Digest:      "shake256:" + strings.Repeat("cd", 64),
		OtherDigest: "shake256:" + strings.Repeat("ef", 64),
		CreateSec:   1700000000,
	}
	ref, err := newCommitRef(c)
	if err != nil {
		t.Fatalf("harness: %v", err)
	}
	for _, ts := range []commitTamper{
		{Op: "digest", Value: "b5:" + strings.Repeat("ab", 64), Label: "other-wellformed-other-type"},
		{Op: "version", Value: "v2"},
		{Op: "garbage", Value: "{}"},
	} {
		for _, viaProvider := range []bool{false, true} {
			cc := c
			cc.ViaProvider = viaProvider
			cc.Steps = []commitStep{cleanCommitPut(), {Tamper: &ts}, cleanCommitPut()}
			v, _, err := runCommitSteps(ctx, cc, ref, cc.Steps)
			if err != nil {
				t.Fatalf("harness: %v", err)
			}
			r.Class("commit-history:directed-nil-commit-regression")
			if v != nil && !r.Fail(t, v.key, v.msg, cc) {
				return
			}
		}
	}
}

func TestCommitStoreHistories(t *testing.T) {
	r := evid.R()
	ctx := context.Background()
	directedNilCommit(ctx, t, r)
	r.Check(t, r.Scale(100, 2800), 4, func(t *rapid.T) {
		c := genCommitCase(t)
		var st commitStats
		if err := sweepCommitCase(ctx, c, &st, func(key, msg string, cc commitCase) bool { return r.Fail(t, key, msg, cc) }); err != nil {
			t.Fatalf("harness: %v (case %s)", err, c.canon())
		}
		commitCrash += st.crash
		commitFaults += st.faults
		commitTorn += st.torn
		commitTamperings += st.tamperings
		if strings.HasPrefix(c.Digest, "b5:") {
			r.Class("commit-digest:b5")
		} else {
			r.Class("commit-digest:b4")
		}
		if c.ViaProvider {
			r.Class("commit-via:bufmodulecache-provider")
		} else {
			r.Class("commit-via:store")
		}
		r.NonTrivial("commit|" + c.canon())
	})
	r.Extra("commit_crash_positions_enumerated", commitCrash)
	r.Extra("commit_single_fault_runs", commitFaults)
	r.Extra("commit_torn_write_positions", commitTorn)
	r.Extra("commit_tamperings", commitTamperings)
}

func replayCommit(t *testing.T) {
	var c commitCase
	ok, err := evid.ReplayCase(&c)
	if !ok {
		t.Skip("no VERIF_REPLAY")
	}
	if err != nil {
		t.Fatal(err)
	}
	r := evid.R()
	defer r.Begin(t)()
	ctx := context.Background()
	if len(c.Steps) == 0 {
		var st commitStats
		if err := sweepCommitCase(ctx, c, &st, func(key, msg string, cc commitCase) bool { return r.Fail(t, key, msg, cc) }); err != nil {
			t.Fatalf("harness: %v", err)
		}
		return
	}
	ref, err := newCommitRef(c)
	if err != nil {
		t.Fatalf("harness: %v", err)
	}
	v, _, err := runCommitSteps(ctx, c, ref, c.Steps)
	if err != nil {
		t.Fatalf("harness: %v", err)
	}
	if v != nil {
		r.Fail(t, v.key, v.msg, c)
	}
}
