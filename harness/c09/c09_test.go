// C09 — the module cache never serves wrong content: crashes, faults, races, tampering.
//
// A generated module (1-8 files incl. empty and ~70 kB ones, b5 or b4 digest, 0-3 dependency
// keys, optional v1 buf.yaml/buf.lock side objects) is stored with
// bufmodulestore.NewModuleDataStore over a storageos temp dir wrapped by the faultx bucket, in
// the directory layout or the tar layout, directly or through the bufmodulecache provider.
// Histories (each step is followed by an oracle evaluation with a FRESH store over the same
// directory):
//
//	crash sweep   CrashAt(k) for EVERY k in [0,E] from an empty directory, plus a kill inside the
//	              atomic close (verif hook, stages closed-temp / renamed); then store again
//	fault sweep   every single event k with every applicable failure variant, and pairs k<k'
//	              (all pairs for small E, sampled otherwise); then store again
//	tampering     of a complete entry: flip / truncate / delete / rename of every file of the entry
//	              (module.yaml, files/**, side objects, the tar blob and each tar member), adding
//	              module and non-module files; then store again
//	races         (c09_race_test.go) 2-4 concurrent "processes" with their own store, bucket and
//	              real file locks; re-executed child processes in both tiers
//
// Oracle (reference written here: the module's files/deps/side objects are the generated ones
// and the digest is recomputed with an independent shake256 implementation of the documented b4/b5
// construction): a read yields "not found", or a ModuleData whose accessors return an error, or
// content that equals the original files byte for byte and whose recomputed digest equals the
// key's digest. Without tampering in the history a hit must be fully correct (a failed or
// interrupted store must not be served as a hit with an unreadable or partial entry), and after
// a later successful store of the same module the read must be a correct hit.
package c09

import (
	"archive/tar"
	"bytes"
	"context"
	"encoding/json"
	"errors"
	"fmt"
	"io"
	"log/slog"
	"os"
	"path/filepath"
	"sort"
	"strings"
	"testing"
	"time"

	"github.com/bufbuild/buf/private/bufpkg/bufmodule"
	"github.com/bufbuild/buf/private/bufpkg/bufmodule/bufmodulecache"
	"github.com/bufbuild/buf/private/bufpkg/bufmodule/bufmodulestore"
	"github.com/bufbuild/buf/private/pkg/filelock"
	"github.com/bufbuild/buf/private/pkg/storage"
	"github.com/bufbuild/buf/private/pkg/storage/storageos"
	"github.com/bufbuild/buf/private/pkg/thread"
	"github.com/bufbuild/bufverif/internal/evid"
	"github.com/bufbuild/bufverif/internal/faultx"
	"pgregory.net/rapid"
)

func TestMain(m *testing.M) {
	if os.Getenv("VERIF_CHILD") != "" {
		os.Exit(childMain())
	}
	evid.Main(m, "C09")
}

var discardLogger = slog.New(slog.NewTextHandler(io.Discard, nil))

// ---------------------------------------------------------------------------------------------
// case and history

type putSpec struct {
	Mode  string `json:"mode"` // clean | crash | fail | hook
	K     int    `json:"k,omitempty"`
	V     string `json:"v,omitempty"`
	K2    int    `json:"k2,omitempty"` // second failing event, -1/0 with V2=="" : none
	V2    string `json:"v2,omitempty"`
	Stage string `json:"stage,omitempty"` // hook: closed-temp | renamed
	N     int    `json:"n,omitempty"`     // crash: bytes of Write event K that still reach the disk (torn write); fail/short-write: bytes forwarded
}

type tamperSpec struct {
	Op      string `json:"op"`             // flip truncate delete add rename | tar-add tar-delete tar-rename tar-flip tar-truncate
	Path    string `json:"path"`           // file, relative to the cache directory
	Offset  int    `json:"offset"`         // flip: byte offset; truncate: new length
	Mask    byte   `json:"mask,omitempty"` // flip: xor mask (non-zero)
	NewPath string `json:"new_path,omitempty"`
	Member  string `json:"member,omitempty"` // tar-*: member name
	Size    int    `json:"size,omitempty"`
	Seed    uint32 `json:"seed,omitempty"`
}

type step struct {
	Put    *putSpec    `json:"put,omitempty"`
	Tamper *tamperSpec `json:"tamper,omitempty"`
}

type c09Case struct {
	Module      faultx.ModuleSpec `json:"module"`
	Tar         bool              `json:"tar"`
	RealLocker  bool              `json:"real_locker"`
	DepsFirst   bool              `json:"deps_first"`
	ViaProvider bool              `json:"via_provider"`
	Draws       []int             `json:"draws"` // pre-drawn numbers for offsets / pair sampling
	Steps       []step            `json:"steps,omitempty"`
}

func (c c09Case) canon() string { c.Steps = nil; b, _ := json.Marshal(c); return string(b) }

func (c c09Case) draw(i int) int {
	if len(c.Draws) == 0 {
		return i
	}
	return c.Draws[((i%len(c.Draws))+len(c.Draws))%len(c.Draws)]
}

func genC09Case(t *rapid.T) c09Case {
	c := c09Case{
		Module:      faultx.GenModule(t, 1, 8),
		Tar:         rapid.Bool().Draw(t, "tar"),
		RealLocker:  rapid.IntRange(0, 2).Draw(t, "reallocker") == 0,
		ViaProvider: rapid.IntRange(0, 2).Draw(t, "provider") == 0,
		DepsFirst:   rapid.Bool().Draw(t, "depsfirst"),
	}
	c.Draws = rapid.SliceOfN(rapid.IntRange(0, 1<<30), 64, 64).Draw(t, "draws")
	return c
}

// ---------------------------------------------------------------------------------------------
// reference data

type refData struct {
	spec   faultx.ModuleSpec
	key    bufmodule.ModuleKey
	data   bufmodule.ModuleData
	files  map[string][]byte
	side   map[string][]byte
	digest string
	deps   []string // "name commit digest", sorted
	hashes *faultx.HashCache
	// depsFirst: call DepModuleKeys() and the side object accessors before Bucket()
	depsFirst bool
}

func newRef(ctx context.Context, spec faultx.ModuleSpec) (*refData, error) {
	key, data, err := spec.ModuleData(ctx)
	if err != nil {
		return nil, err
	}
	ref := &refData{spec: spec, key: key, data: data, files: spec.FilesMap(), side: spec.SideFiles(), digest: spec.RefDigest()}
	ref.hashes = faultx.NewHashCache(ref.files, ref.side)
	for _, d := range spec.Deps {
		ref.deps = append(ref.deps, d.Name+" "+d.Commit+" "+d.Digest)
	}
	sort.Strings(ref.deps)
	return ref, nil
}

// entryRoot is where the store keeps the module, by the documented layout
// <digest type>/<registry>/<owner>/<name>/<dashless commit>[.tar].
func entryRoot(spec faultx.ModuleSpec) string {
	dt := "b5"
	if spec.DigestType == "b4" {
		dt = "shake256"
	}
	return dt + "/" + spec.Name + "/" + strings.ReplaceAll(spec.Commit, "-", "")
}

type delegateProvider struct{ ref *refData }

func (d delegateProvider) GetModuleDatasForModuleKeys(ctx context.Context, keys []bufmodule.ModuleKey) ([]bufmodule.ModuleData, error) {
	out := make([]bufmodule.ModuleData, 0, len(keys))
	for range keys {
		out = append(out, d.ref.data)
	}
	return out, nil
}

// ---------------------------------------------------------------------------------------------
// reading and judging

const (
	outMiss     = "miss"
	outHitOK    = "hit-ok"
	outHitErr   = "hit-digest-mismatch"
	outHitOther = "hit-other-error"
	outHitWrong = "hit-wrong"
)

// inspect classifies one ModuleData against the reference. Every accessor is judged on its own:
// one that returns without an error must return correct content even if another accessor
// reports the digest mismatch. tampered relaxes what the digest does not cover by design (b5:
// side objects, dependency names).
func inspect(ctx context.Context, ref *refData, md bufmodule.ModuleData, tampered bool) (outcome, detail string) {
	errOutcome, errDetail := "", ""
	accErr := func(what string, err error) {
		o := outHitOther
		var dm *bufmodule.DigestMismatchError
		if errors.As(err, &dm) {
			o = outHitErr
		}
		if errOutcome == "" {
			errOutcome, errDetail = o, what+": "+firstLine(err.Error())
		}
	}
	// the ModuleData must be the one for the requesting key
	if mk := md.ModuleKey(); mk == nil {
		return outHitWrong, "the served ModuleData has a nil ModuleKey"
	} else if d, err := mk.Digest(); err != nil {
		return outHitOther, "ModuleKey().Digest(): " + firstLine(err.Error())
	} else if d.String() != ref.digest || mk.CommitID().String() != ref.spec.Commit {
		return outHitWrong, fmt.Sprintf("the served ModuleData belongs to key %s %s, the requesting key is %s %s", mk.CommitID(), d.String(), ref.spec.Commit, ref.digest)
	}
	// Call every accessor first, in the order drawn for the case: the dependency keys and the
	// side objects before the bucket in half of the cases (callers that resolve the dependency
	// graph look at DepModuleKeys() before or without Bucket()). Each result is then judged by
	// the same oracle.
	var (
		bucket                 storage.ReadBucket
		depKeys                []bufmodule.ModuleKey
		yamlObj, lockObj       bufmodule.ObjectData
		bErr, dErr, yErr, lErr error
	)
	getBucket := func() { bucket, bErr = md.Bucket() }
	getRest := func() {
		depKeys, dErr = md.DepModuleKeys()
		yamlObj, yErr = md.V1Beta1OrV1BufYAMLObjectData()
		lockObj, lErr = md.V1Beta1OrV1BufLockObjectData()
	}
	if ref.depsFirst {
		getRest()
		getBucket()
	} else {
		getBucket()
		getRest()
	}
	// A digest mismatch is never accepted silently: if one accessor reports it, no other
	// accessor may hand out content of the same entry without an error.
	{
		names := []string{"Bucket()", "DepModuleKeys()", "V1Beta1OrV1BufYAMLObjectData()", "V1Beta1OrV1BufLockObjectData()"}
		errs := []error{bErr, dErr, yErr, lErr}
		mismatch, silent := "", ""
		for i, e := range errs {
			var dm *bufmodule.DigestMismatchError
			if e != nil && errors.As(e, &dm) && mismatch == "" {
				mismatch = names[i]
			}
			if e == nil && silent == "" {
				silent = names[i]
			}
		}
		if mismatch != "" && silent != "" {
			return outHitWrong, fmt.Sprintf("%s reports a digest mismatch for the entry, but %s returned its content without an error (accessor order: deps first = %v)", mismatch, silent, ref.depsFirst)
		}
	}
	var files map[string][]byte
	err := bErr
	if err != nil {
		accErr("Bucket()", err)
	} else if files, err = faultx.ReadAll(ctx, bucket); err != nil {
		files = nil
		accErr("reading Bucket()", err)
	} else {
		// files byte for byte
		for _, p := range faultx.SortedKeys(ref.files) {
			got, ok := files[p]
			if !ok {
				return outHitWrong, fmt.Sprintf("Bucket() returned no error but file %q is missing from the served bucket", p)
			}
			if !bytes.Equal(got, ref.files[p]) {
				return outHitWrong, fmt.Sprintf("Bucket() returned no error but file %q is served with %d bytes that differ from the original %d bytes", p, len(got), len(ref.files[p]))
			}
		}
		for _, p := range faultx.SortedKeys(files) {
			if _, ok := ref.files[p]; !ok {
				return outHitWrong, fmt.Sprintf("Bucket() returned no error but the served bucket has the extra file %q", p)
			}
		}
	}
	depsOK, sideOK := false, true
	var depDigests, deps []string
	if err = dErr; err != nil {
		accErr("DepModuleKeys()", err)
	} else {
		depsOK = true
		for _, k := range depKeys {
			d, err := k.Digest()
			if err != nil {
				return outHitOther, "dep digest: " + err.Error()
			}
			depDigests = append(depDigests, d.String())
			deps = append(deps, k.FullName().String()+" "+k.CommitID().String()+" "+d.String())
		}
		sort.Strings(deps)
		if !tampered && strings.Join(deps, "|") != strings.Join(ref.deps, "|") {
			return outHitWrong, fmt.Sprintf("DepModuleKeys() returned no error but the keys %v differ from the stored %v", deps, ref.deps)
		}
	}
	side := map[string][]byte{}
	if err = yErr; err != nil {
		sideOK = false
		accErr("V1Beta1OrV1BufYAMLObjectData()", err)
	} else if yamlObj != nil {
		side[yamlObj.Name()] = yamlObj.Data()
	}
	if err = lErr; err != nil {
		sideOK = false
		accErr("V1Beta1OrV1BufLockObjectData()", err)
	} else if lockObj != nil {
		side[lockObj.Name()] = lockObj.Data()
	}
	if sideOK && (!tampered || ref.spec.DigestType == "b4") {
		// names and bytes: what was stored must come back (the name is part of the b4 digest and
		// tells buf.mod from buf.yaml)
		for _, n := range faultx.SortedKeys(ref.side) {
			got, ok := side[n]
			if !ok {
				return outHitWrong, fmt.Sprintf("the side object accessors returned no error but the stored side object %q is not served (served names: %v)", n, faultx.SortedKeys(side))
			}
			if !bytes.Equal(got, ref.side[n]) {
				return outHitWrong, fmt.Sprintf("the side object accessors returned no error but %s (%d bytes) differs from the stored one (%d bytes)", n, len(got), len(ref.side[n]))
			}
		}
		for _, n := range faultx.SortedKeys(side) {
			if _, ok := ref.side[n]; !ok {
				return outHitWrong, fmt.Sprintf("the side object accessors returned no error but serve %q, which was never stored (stored names: %v)", n, faultx.SortedKeys(ref.side))
			}
		}
	}
	// digest recomputed by the reference over what was served without error
	if files != nil {
		recomputed := ""
		if ref.spec.DigestType == "b4" && sideOK {
			recomputed = faultx.RefB4Digest(files, side, ref.hashes)
		} else if ref.spec.DigestType != "b4" && depsOK {
			recomputed = faultx.RefB5Digest(files, depDigests, ref.hashes)
		}
		if recomputed != "" && recomputed != ref.digest {
			return outHitWrong, fmt.Sprintf("digest recomputed over the served content is %s, the key pins %s", recomputed, ref.digest)
		}
	}
	if errOutcome != "" {
		return errOutcome, errDetail
	}
	return outHitOK, ""
}

func firstLine(s string) string {
	s = strings.TrimSpace(s)
	if i := strings.IndexByte(s, '\n'); i >= 0 {
		s = s[:i]
	}
	if len(s) > 200 {
		s = s[:200]
	}
	return s
}

func storeOptions(tarLayout bool) []bufmodulestore.ModuleDataStoreOption {
	if tarLayout {
		return []bufmodulestore.ModuleDataStoreOption{bufmodulestore.ModuleDataStoreWithTar()}
	}
	return nil
}

func newLocker(dir string, real bool) (filelock.Locker, error) {
	if !real {
		return filelock.NewNopLocker(), nil
	}
	return filelock.NewLocker(dir, filelock.LockerWithLockTimeout(2*time.Minute), filelock.LockerWithLockRetryDelay(time.Millisecond))
}

// readFresh opens a fresh bucket + store over dir and reads the key.
func readFresh(ctx context.Context, dir string, c c09Case, ref *refData, tampered bool) (outcome, detail string, err error) {
	bucket, err := storageos.NewProvider().NewReadWriteBucket(dir)
	if err != nil {
		return "", "", err
	}
	locker, err := newLocker(dir, c.RealLocker)
	if err != nil {
		return "", "", err
	}
	store := bufmodulestore.NewModuleDataStore(discardLogger, bucket, locker, storeOptions(c.Tar)...)
	return readStore(ctx, store, ref, tampered)
}

func readStore(ctx context.Context, store bufmodulestore.ModuleDataStore, ref *refData, tampered bool) (outcome, detail string, err error) {
	found, notFound, gerr := store.GetModuleDatasForModuleKeys(ctx, []bufmodule.ModuleKey{ref.key})
	if gerr != nil {
		return outMiss, "GetModuleDatasForModuleKeys error: " + firstLine(gerr.Error()), nil
	}
	if len(found) == 0 {
		if len(notFound) != 1 {
			return outHitWrong, fmt.Sprintf("key is neither found nor reported as not found (found %d, not found %d)", len(found), len(notFound)), nil
		}
		return outMiss, "", nil
	}
	if len(found) != 1 || len(notFound) != 0 {
		return outHitWrong, fmt.Sprintf("one key requested, %d found and %d not found", len(found), len(notFound)), nil
	}
	o, d := inspect(ctx, ref, found[0], tampered)
	return o, d, nil
}

type histState struct {
	disturbed bool // some store of the history was crashed or had an injected failure
	tampered  bool
	mustHit   bool // the last step was a successful undisturbed store and nothing was ever tampered
}

// judgeRead applies the property to one read outcome.
func judgeRead(st histState, outcome, detail string) (key, msg string) {
	switch outcome {
	case outHitWrong:
		return "cache-served-wrong-content", "the cache served wrong content: " + detail
	case outHitErr, outHitOther:
		if !st.tampered {
			if st.disturbed {
				return "failed-store-served-as-hit", "after a failed/interrupted store (no tampering) the entry is served as a hit but is not readable: " + detail
			}
			return "hit-unreadable-without-tampering", "entry served as a hit but not readable although nothing failed or was tampered with: " + detail
		}
	case outMiss:
		if st.mustHit {
			if st.disturbed {
				return "store-did-not-repair", "a later successful store of the same module did not repair the entry: the read is a miss " + detail
			}
			return "stored-entry-not-found", "a successful store is followed by a miss " + detail
		}
	}
	if st.mustHit && outcome != outHitOK {
		return "store-did-not-repair", "after a successful store the read is " + outcome + ": " + detail
	}
	return "", ""
}

// ---------------------------------------------------------------------------------------------
// executing a history

type history struct {
	ctx     context.Context
	c       c09Case
	ref     *refData
	dir     string
	st      histState
	buckets []*faultx.Bucket
	// results of the last put
	lastErr    error
	lastEvents []faultx.Event
	trace      []string
}

func newHistory(ctx context.Context, c c09Case, ref *refData) (*history, error) {
	dir, err := os.MkdirTemp("", "c09")
	if err != nil {
		return nil, err
	}
	return &history{ctx: ctx, c: c, ref: ref, dir: dir}, nil
}

func (h *history) close() {
	storageos.SetVerifAtomicCloseHook(nil)
	for _, b := range h.buckets {
		b.Reap()
	}
	_ = os.RemoveAll(h.dir)
}

func variantByName(s string) (faultx.Variant, bool) {
	for _, v := range []faultx.Variant{faultx.VarError, faultx.VarShortWrite, faultx.VarCloseForwarded, faultx.VarCloseLost} {
		if v.String() == s {
			return v, true
		}
	}
	return 0, false
}

type violation struct{ key, msg string }

// put runs one store step. A violation can only come from the provider path (data handed out).
func (h *history) put(ps putSpec) (*violation, error) {
	under, err := storageos.NewProvider().NewReadWriteBucket(h.dir)
	if err != nil {
		return nil, err
	}
	plan := faultx.Count()
	switch ps.Mode {
	case "clean", "hook":
	case "crash":
		plan = faultx.CrashAt(ps.K)
		if ps.N > 0 {
			plan = faultx.CrashInWrite(ps.K, ps.N)
		}
	case "fail":
		v, ok := variantByName(ps.V)
		if !ok {
			return nil, fmt.Errorf("bad variant %q", ps.V)
		}
		plan = faultx.FailAt(ps.K, v)
		if ps.N > 0 && v == faultx.VarShortWrite {
			plan = faultx.ShortWriteAt(ps.K, ps.N)
		}
		if ps.V2 != "" {
			v2, ok := variantByName(ps.V2)
			if !ok {
				return nil, fmt.Errorf("bad variant %q", ps.V2)
			}
			plan = faultx.FailAt2(ps.K, v, ps.K2, v2)
		}
	default:
		return nil, fmt.Errorf("bad put mode %q", ps.Mode)
	}
	fb := faultx.New(under, plan)
	h.buckets = append(h.buckets, fb)
	hookFired := false
	if ps.Mode == "hook" {
		storageos.SetVerifAtomicCloseHook(func(stage, tmp, final string) error {
			if stage == ps.Stage && !hookFired {
				hookFired = true
				fb.CrashNow()
				return faultx.ErrCrashed
			}
			return nil
		})
		defer storageos.SetVerifAtomicCloseHook(nil)
	}
	locker, err := newLocker(h.dir, h.c.RealLocker)
	if err != nil {
		return nil, err
	}
	store := bufmodulestore.NewModuleDataStore(discardLogger, fb, locker, storeOptions(h.c.Tar)...)
	thread.SetParallelism(1)
	var perr error
	var viol *violation
	if h.c.ViaProvider {
		provider := bufmodulecache.NewModuleDataProvider(discardLogger, delegateProvider{h.ref}, store)
		var datas []bufmodule.ModuleData
		datas, perr = provider.GetModuleDatasForModuleKeys(h.ctx, []bufmodule.ModuleKey{h.ref.key})
		if perr == nil {
			if len(datas) != 1 {
				viol = &violation{"cache-served-wrong-content", fmt.Sprintf("the cache provider returned %d module datas for one key", len(datas))}
			} else if !fb.Crashed() {
				// what the provider hands to the caller is a read like any other
				o, d := inspect(h.ctx, h.ref, datas[0], h.st.tampered)
				st := h.st
				st.disturbed = st.disturbed || fb.Disturbed()
				st.mustHit = false
				if key, msg := judgeRead(st, o, d); key != "" {
					viol = &violation{key, "through the bufmodulecache provider: " + msg}
				}
				evid.R().Class("provider-read:" + o)
			}
		}
	} else {
		perr = store.PutModuleDatas(h.ctx, []bufmodule.ModuleData{h.ref.data})
	}
	h.lastErr = perr
	h.lastEvents = fb.Log()
	disturbed := fb.Disturbed()
	if ps.Mode == "hook" {
		// whether the store uses an atomic rename at all is a mechanism, not the property: if
		// the stage is never reached this history is just a clean store
		if hookFired {
			evid.R().Class("hook-stage-reached:" + ps.Stage)
		} else {
			evid.R().Class("hook-stage-not-reached:" + ps.Stage)
		}
	}
	if disturbed {
		h.st.disturbed = true
	}
	h.st.mustHit = perr == nil && !disturbed && !h.st.tampered
	h.trace = append(h.trace, fmt.Sprintf("store(%s) -> err=%v disturbed=%v events=%d", describePut(ps), perr != nil, disturbed, len(h.lastEvents)))
	if viol == nil && perr != nil && !disturbed && !h.st.tampered {
		// a healthy store of the same module on a never-tampered directory must succeed:
		// "a later store of the same module repairs the entry"
		if !h.st.disturbed {
			return nil, fmt.Errorf("undisturbed store on an undisturbed directory failed: %w", perr)
		}
		viol = &violation{"store-did-not-repair", "a later store of the same module (no fault injected, nothing tampered) fails instead of repairing the entry left by the failed/interrupted store: " + firstLine(perr.Error())}
	}
	return viol, nil
}

func describePut(ps putSpec) string {
	switch ps.Mode {
	case "crash":
		if ps.N > 0 {
			return fmt.Sprintf("crash inside write event %d after %d bytes", ps.K, ps.N)
		}
		return fmt.Sprintf("crash at event %d", ps.K)
	case "fail":
		if ps.N > 0 {
			return fmt.Sprintf("%s at event %d after %d bytes", ps.V, ps.K, ps.N)
		}
		if ps.V2 != "" {
			return fmt.Sprintf("%s at event %d and %s at event %d", ps.V, ps.K, ps.V2, ps.K2)
		}
		return fmt.Sprintf("%s at event %d", ps.V, ps.K)
	case "hook":
		return "kill inside the atomic close at stage " + ps.Stage
	}
	return ps.Mode
}

func (h *history) tamper(ts tamperSpec) error {
	h.st.tampered = true
	h.st.mustHit = false
	h.trace = append(h.trace, fmt.Sprintf("tamper(%+v)", ts))
	full := filepath.Join(h.dir, filepath.FromSlash(ts.Path))
	switch ts.Op {
	case "flip":
		data, err := os.ReadFile(full)
		if err != nil {
			return err
		}
		if ts.Offset < 0 || ts.Offset >= len(data) || ts.Mask == 0 {
			return fmt.Errorf("bad flip %+v on %d bytes", ts, len(data))
		}
		data[ts.Offset] ^= ts.Mask
		return os.WriteFile(full, data, 0o644)
	case "truncate":
		return os.Truncate(full, int64(ts.Offset))
	case "delete":
		return os.Remove(full)
	case "add":
		if err := os.MkdirAll(filepath.Dir(full), 0o755); err != nil {
			return err
		}
		return os.WriteFile(full, faultx.Content(ts.Seed, ts.Size), 0o644)
	case "rename":
		to := filepath.Join(h.dir, filepath.FromSlash(ts.NewPath))
		if err := os.MkdirAll(filepath.Dir(to), 0o755); err != nil {
			return err
		}
		return os.Rename(full, to)
	}
	if strings.HasPrefix(ts.Op, "tar-") {
		return tamperTar(full, ts)
	}
	return fmt.Errorf("bad tamper op %q", ts.Op)
}

type tarMember struct {
	name string
	data []byte
}

func readTar(path string) ([]tarMember, error) {
	raw, err := os.ReadFile(path)
	if err != nil {
		return nil, err
	}
	tr := tar.NewReader(bytes.NewReader(raw))
	var out []tarMember
	for {
		hdr, err := tr.Next()
		if err == io.EOF {
			return out, nil
		}
		if err != nil {
			return nil, err
		}
		data, err := io.ReadAll(tr)
		if err != nil {
			return nil, err
		}
		out = append(out, tarMember{hdr.Name, data})
	}
}

// tamperTar rewrites the (well-formed) tar blob with one member changed.
func tamperTar(path string, ts tamperSpec) error {
	members, err := readTar(path)
	if err != nil {
		return err
	}
	var out []tarMember
	hit := false
	for _, m := range members {
		if m.name != ts.Member {
			out = append(out, m)
			continue
		}
		hit = true
		switch ts.Op {
		case "tar-delete":
		case "tar-rename":
			out = append(out, tarMember{ts.NewPath, m.data})
		case "tar-flip":
			d := append([]byte(nil), m.data...)
			if ts.Offset < 0 || ts.Offset >= len(d) || ts.Mask == 0 {
				return fmt.Errorf("bad tar-flip %+v", ts)
			}
			d[ts.Offset] ^= ts.Mask
			out = append(out, tarMember{m.name, d})
		case "tar-truncate":
			out = append(out, tarMember{m.name, m.data[:ts.Offset]})
		}
	}
	if ts.Op == "tar-add" {
		out = append(out, tarMember{ts.NewPath, faultx.Content(ts.Seed, ts.Size)})
		sort.SliceStable(out, func(i, j int) bool { return out[i].name < out[j].name })
		hit = true
	}
	if !hit {
		return fmt.Errorf("tar member %q not found", ts.Member)
	}
	var buf bytes.Buffer
	tw := tar.NewWriter(&buf)
	for _, m := range out {
		if err := tw.WriteHeader(&tar.Header{Typeflag: tar.TypeReg, Name: m.name, Size: int64(len(m.data)), Mode: 0o644}); err != nil {
			return err
		}
		if _, err := tw.Write(m.data); err != nil {
			return err
		}
	}
	if err := tw.Close(); err != nil {
		return err
	}
	return os.WriteFile(path, buf.Bytes(), 0o644)
}

// check evaluates the oracle with a fresh store.
func (h *history) check() (*violation, string, error) {
	o, d, err := readFresh(h.ctx, h.dir, h.c, h.ref, h.st.tampered)
	if err != nil {
		return nil, "", err
	}
	evid.R().Eval()
	evid.R().Class("read:" + o)
	h.trace = append(h.trace, "read -> "+o)
	if key, msg := judgeRead(h.st, o, d); key != "" {
		return &violation{key, msg + "; history: " + strings.Join(h.trace, "; ")}, o, nil
	}
	return nil, o, nil
}

// runSteps executes a history with an oracle evaluation after every step.
func runSteps(ctx context.Context, c c09Case, ref *refData, steps []step) (*violation, *history, error) {
	h, err := newHistory(ctx, c, ref)
	if err != nil {
		return nil, nil, err
	}
	defer h.close()
	for _, s := range steps {
		switch {
		case s.Put != nil:
			v, err := h.put(*s.Put)
			if err != nil {
				return nil, h, err
			}
			if v != nil {
				v.msg += "; history: " + strings.Join(h.trace, "; ")
				return v, h, nil
			}
		case s.Tamper != nil:
			if err := h.tamper(*s.Tamper); err != nil {
				return nil, h, fmt.Errorf("tamper: %w", err)
			}
		}
		v, _, err := h.check()
		if err != nil || v != nil {
			return v, h, err
		}
	}
	return nil, h, nil
}

func cleanPut() step { return step{Put: &putSpec{Mode: "clean"}} }

// ---------------------------------------------------------------------------------------------
// the sweeps of one case

type caseStats struct {
	E                int
	crashPositions   int
	faultPositions   int
	faultRuns        int
	pairRuns         int
	tornWrites       int
	tamperings       int
	copyPhase        bool
	repairedAfterTam int
	stuckAfterTam    int
}

// learn stores once on a counting bucket, checks the read and returns the event log and the files
// of the complete entry (relative to the cache dir, lock files excluded).
//
// The fault-free store of the generated module followed by a fresh read is itself a history of
// the property: what comes back (file names, bytes, side object names, dependency keys, digest)
// must be what was stored. A miss / unreadable / wrong entry here is a violation, not a harness
// failure (the harness's digest reference is validated by every case of a green run).
func learn(ctx context.Context, c c09Case, ref *refData) ([]faultx.Event, map[string][]byte, *violation, error) {
	h, err := newHistory(ctx, c, ref)
	if err != nil {
		return nil, nil, nil, err
	}
	defer h.close()
	v, err := h.put(putSpec{Mode: "clean"})
	if err != nil {
		return nil, nil, nil, fmt.Errorf("clean store: %w", err)
	}
	if v != nil {
		v.msg += "; history: " + strings.Join(h.trace, "; ")
		return nil, nil, v, nil
	}
	if h.lastErr != nil {
		return nil, nil, nil, fmt.Errorf("clean store failed: %w", h.lastErr)
	}
	if v, _, err := h.check(); err != nil || v != nil {
		return nil, nil, v, err
	}
	snap, err := faultx.SnapshotDir(h.dir)
	if err != nil {
		return nil, nil, nil, err
	}
	for p := range snap {
		if strings.HasSuffix(p, ".lock") && !strings.Contains(p, "/v1_buf_lock/") {
			delete(snap, p)
		}
	}
	return h.lastEvents, snap, nil, nil
}

func tamperList(c c09Case, entry map[string][]byte) []tamperSpec {
	var out []tamperSpec
	root := entryRoot(c.Module)
	n := 0
	mask := func() byte { n++; return byte(c.draw(n)%255) + 1 }
	off := func(size int) int { n++; return c.draw(n) % size }
	for i, p := range faultx.SortedKeys(entry) {
		size := len(entry[p])
		if size > 0 {
			out = append(out, tamperSpec{Op: "flip", Path: p, Offset: off(size), Mask: mask()})
			out = append(out, tamperSpec{Op: "flip", Path: p, Offset: size - 1, Mask: mask()})
			out = append(out, tamperSpec{Op: "truncate", Path: p, Offset: off(size)})
			out = append(out, tamperSpec{Op: "truncate", Path: p, Offset: 0})
		}
		out = append(out, tamperSpec{Op: "delete", Path: p})
		to := p + ".moved"
		switch {
		case strings.Contains(p, "/files/"):
			to = root + fmt.Sprintf("/files/renamed%d.proto", i)
		case strings.HasSuffix(p, "/module.yaml"):
			to = root + "/files/module_yaml_moved.proto"
		}
		out = append(out, tamperSpec{Op: "rename", Path: p, NewPath: to})
	}
	if !c.Tar {
		out = append(out,
			tamperSpec{Op: "add", Path: root + "/files/added.proto", Size: 40, Seed: 5},
			tamperSpec{Op: "add", Path: root + "/files/deep/er/added2.proto", Size: 0, Seed: 6},
			tamperSpec{Op: "add", Path: root + "/files/notes.txt", Size: 33, Seed: 7},
			tamperSpec{Op: "add", Path: root + "/extra.bin", Size: 10, Seed: 8},
		)
		return out
	}
	// tar layout: raw offsets inside the first header block and structural changes per member
	tarPath := root + ".tar"
	blob := entry[tarPath]
	for _, o := range []int{0, 100, 124, 136, 148, 156, 257, 512, 1023} {
		if o < len(blob) {
			out = append(out, tamperSpec{Op: "flip", Path: tarPath, Offset: o, Mask: mask()})
		}
	}
	for _, l := range []int{511, 512, 513, 1024, len(blob) - 1024, len(blob) - 1023, len(blob) - 512, len(blob) - 1} {
		if l > 0 && l < len(blob) {
			out = append(out, tamperSpec{Op: "truncate", Path: tarPath, Offset: l})
		}
	}
	for i := 0; i < 6; i++ {
		out = append(out, tamperSpec{Op: "flip", Path: tarPath, Offset: off(len(blob)), Mask: mask()})
	}
	tr := tar.NewReader(bytes.NewReader(blob))
	for i := 0; ; i++ {
		hdr, err := tr.Next()
		if err != nil {
			break
		}
		out = append(out, tamperSpec{Op: "tar-delete", Path: tarPath, Member: hdr.Name})
		to := hdr.Name + ".moved"
		if strings.HasPrefix(hdr.Name, "files/") {
			to = fmt.Sprintf("files/renamed%d.proto", i)
		}
		out = append(out, tamperSpec{Op: "tar-rename", Path: tarPath, Member: hdr.Name, NewPath: to})
		if hdr.Size > 0 {
			out = append(out, tamperSpec{Op: "tar-flip", Path: tarPath, Member: hdr.Name, Offset: off(int(hdr.Size)), Mask: mask()})
			out = append(out, tamperSpec{Op: "tar-truncate", Path: tarPath, Member: hdr.Name, Offset: off(int(hdr.Size))})
		}
	}
	out = append(out,
		tamperSpec{Op: "tar-add", Path: tarPath, NewPath: "files/added.proto", Size: 40, Seed: 5},
		tamperSpec{Op: "tar-add", Path: tarPath, NewPath: "files/notes.txt", Size: 33, Seed: 7},
		tamperSpec{Op: "tar-add", Path: tarPath, NewPath: "extra.bin", Size: 10, Seed: 8},
	)
	return out
}

// sweepCase runs every history of the case; fail returns true to go on.
func sweepCase(ctx context.Context, c c09Case, st *caseStats, fail func(key, msg string, c c09Case) bool) error {
	r := evid.R()
	ref, err := newRef(ctx, c.Module)
	if err != nil {
		return err
	}
	ref.depsFirst = c.DepsFirst
	events, entry, lv, err := learn(ctx, c, ref)
	if err != nil {
		return err
	}
	if lv != nil {
		cc := c
		cc.Steps = []step{cleanPut()}
		fail(lv.key, lv.msg, cc)
		return nil
	}
	evid.R().Class("history:fault-free-store+read/" + map[bool]string{false: "dir", true: "tar"}[c.Tar])
	E := len(events)
	st.E = E
	if E < 3 {
		return fmt.Errorf("clean store has only %d events", E)
	}
	run := func(steps []step) (bool, *history, error) {
		v, h, err := runSteps(ctx, c, ref, steps)
		if err != nil {
			return false, h, fmt.Errorf("%w (steps %s)", err, mustJSON(steps))
		}
		if v != nil {
			cc := c
			cc.Steps = steps
			return fail(v.key, v.msg, cc), h, nil
		}
		return true, h, nil
	}
	layout := "dir"
	if c.Tar {
		layout = "tar"
	}
	for _, e := range events {
		if e.Index > 0 && e.Index < E-1 && (strings.Contains(e.Path, "/files/") || c.Tar) {
			st.copyPhase = true
		}
	}
	// (1) crash sweep + store again
	for k := 0; k <= E; k++ {
		st.crashPositions++
		goOn, _, err := run([]step{{Put: &putSpec{Mode: "crash", K: k}}, cleanPut()})
		if err != nil || !goOn {
			return err
		}
		r.Class("history:crash+restore/" + layout)
	}
	for _, stage := range []string{"closed-temp", "renamed"} {
		st.crashPositions++
		goOn, _, err := run([]step{{Put: &putSpec{Mode: "hook", Stage: stage}}, cleanPut()})
		if err != nil || !goOn {
			return err
		}
		r.Class("history:kill-in-atomic-close:" + stage + "/" + layout)
	}
	// (2) fault sweep: every single k and variant, then store again
	for k := 0; k < E; k++ {
		st.faultPositions++
		variants := faultx.Variants(events[k].Kind)
		if events[k].Kind == faultx.KindClose {
			// write-behind: the data accepted by Write is lost and only Close reports it
			variants = append(variants, faultx.VarCloseLost)
		}
		for _, v := range variants {
			st.faultRuns++
			goOn, _, err := run([]step{{Put: &putSpec{Mode: "fail", K: k, V: v.String()}}, cleanPut()})
			if err != nil || !goOn {
				return err
			}
			r.Class("history:fault(" + events[k].KindS + "/" + v.String() + ")+restore/" + layout)
		}
	}
	// (2b) torn writes: a crash INSIDE write event k after n of its bytes reached the disk, and a
	// short write of n bytes, each followed by a clean store
	budget := 200
	if r.Thorough() {
		budget = 400
	}
	for _, cut := range tornCuts(c, events, budget) {
		st.tornWrites++
		goOn, _, err := run([]step{{Put: &putSpec{Mode: "crash", K: cut.k, N: cut.n}}, cleanPut()})
		if err != nil || !goOn {
			return err
		}
		r.Class("history:crash-inside-write+restore/" + layout)
		if cut.structural {
			st.faultRuns++
			goOn, _, err := run([]step{{Put: &putSpec{Mode: "fail", K: cut.k, V: faultx.VarShortWrite.String(), N: cut.n}}, cleanPut()})
			if err != nil || !goOn {
				return err
			}
			r.Class("history:short-write-at-cut+restore/" + layout)
		}
	}
	// pairs
	type pair struct{ a, b int }
	var pairs []pair
	allLimit, sample := 12, 40
	if r.Thorough() {
		allLimit, sample = 20, 120
	}
	if E <= allLimit {
		for a := 0; a < E; a++ {
			for b := a + 1; b < E; b++ {
				pairs = append(pairs, pair{a, b})
			}
		}
		r.Class("pairs:all/" + layout)
	} else {
		for i := 0; i < sample; i++ {
			a := c.draw(2*i) % (E - 1)
			b := a + 1 + c.draw(2*i+1)%(E-1-a)
			pairs = append(pairs, pair{a, b})
		}
		r.Class("pairs:sampled/" + layout)
	}
	for i, p := range pairs {
		va := faultx.Variants(events[p.a].Kind)
		vb := faultx.Variants(events[p.b].Kind)
		st.pairRuns++
		goOn, _, err := run([]step{{Put: &putSpec{Mode: "fail", K: p.a, V: va[c.draw(i)%len(va)].String(), K2: p.b, V2: vb[c.draw(i+1)%len(vb)].String()}}, cleanPut()})
		if err != nil || !goOn {
			return err
		}
	}
	r.ClassN("history:fault-pair+restore/"+layout, len(pairs))
	// (3) tampering of the complete entry, then store again
	for _, ts := range tamperList(c, entry) {
		ts := ts
		st.tamperings++
		goOn, h, err := run([]step{cleanPut(), {Tamper: &ts}, cleanPut()})
		if err != nil || !goOn {
			return err
		}
		r.Class("history:tamper(" + ts.Op + ")+restore/" + layout)
		if h != nil && len(h.trace) > 0 {
			if strings.HasSuffix(h.trace[len(h.trace)-1], outHitOK) {
				st.repairedAfterTam++
			} else {
				st.stuckAfterTam++
			}
		}
	}
	// (4) longer concatenations: crash, fault, tamper, store
	mid := E / 2
	goOn, _, err := run([]step{
		{Put: &putSpec{Mode: "crash", K: c.draw(1) % (E + 1)}},
		{Put: &putSpec{Mode: "fail", K: mid, V: faultx.Variants(events[mid].Kind)[0].String()}},
		{Put: &putSpec{Mode: "crash", K: c.draw(2) % (E + 1)}},
		cleanPut(),
		cleanPut(),
	})
	if err != nil || !goOn {
		return err
	}
	r.Class("history:crash+fault+crash+restore/" + layout)
	return nil
}

type tornCut struct {
	k, n       int
	structural bool
}

// tornCuts chooses the byte offsets at which a write is torn. Always, for every Write event: the
// first byte, the last byte and one drawn offset. Then, within the budget and latest write first
// (the writes closest to the commit point are where a torn write matters): both sides of every
// line boundary of the written data (when the data was kept, i.e. <= 4 kB; the cut right after a
// newline, a prefix of complete lines, is "structural" and also run as a short write), and then
// EVERY remaining byte offset of the writes of at most 2 kB.
func tornCuts(c c09Case, events []faultx.Event, budget int) []tornCut {
	var out []tornCut
	seen := map[[2]int]bool{}
	add := func(k, n int, structural bool) bool {
		if n <= 0 || n >= events[k].Len || seen[[2]int{k, n}] {
			return false
		}
		seen[[2]int{k, n}] = true
		out = append(out, tornCut{k, n, structural})
		return true
	}
	var writes []int
	for k, e := range events {
		if e.Kind != faultx.KindWrite || e.Len < 2 {
			continue
		}
		writes = append(writes, k)
		add(k, 1, false)
		add(k, e.Len-1, false)
		add(k, 1+c.draw(k)%(e.Len-1), false)
	}
	for i := len(writes) - 1; i >= 0 && budget > 0; i-- {
		k := writes[i]
		for j, b := range events[k].Data {
			if b != '\n' || budget <= 0 {
				continue
			}
			if add(k, j+1, true) {
				budget -= 2
			}
			if add(k, j, false) {
				budget--
			}
			if add(k, j+2, false) {
				budget--
			}
		}
	}
	for i := len(writes) - 1; i >= 0 && budget > 0; i-- {
		k := writes[i]
		if events[k].Len > 2048 {
			continue
		}
		for n := 1; n < events[k].Len && budget > 0; n++ {
			if add(k, n, false) {
				budget--
			}
		}
	}
	return out
}

func mustJSON(v any) string { b, _ := json.Marshal(v); return string(b) }

var sumCrash, sumFault, sumFaultRuns, sumPairs, sumTamper, sumTorn int

func TestStoreHistories(t *testing.T) {
	r := evid.R()
	ctx := context.Background()
	r.Check(t, r.Scale(40, 336), 1, func(t *rapid.T) {
		c := genC09Case(t)
		var st caseStats
		err := sweepCase(ctx, c, &st, func(key, msg string, cc c09Case) bool { return r.Fail(t, key, msg, cc) })
		if err != nil {
			t.Fatalf("harness: %v (case %s)", err, c.canon())
		}
		sumCrash += st.crashPositions
		sumFault += st.faultPositions
		sumFaultRuns += st.faultRuns
		sumPairs += st.pairRuns
		sumTamper += st.tamperings
		sumTorn += st.tornWrites
		layout := "layout:dir"
		if c.Tar {
			layout = "layout:tar"
		}
		r.Class(layout)
		r.Class("digest:" + c.Module.DigestType)
		if c.Module.BufYAML != nil || c.Module.BufLock != nil {
			r.Class("with-v1-side-objects")
		}
		if c.Module.BufYAML != nil && c.Module.ConfigName() == "buf.mod" {
			r.Class("legacy-config-name:buf.mod/" + c.Module.DigestType)
		}
		if len(c.Module.Deps) > 0 {
			r.Class("with-deps")
		}
		if c.RealLocker {
			r.Class("locker:real")
		} else {
			r.Class("locker:nop")
		}
		if c.DepsFirst {
			r.Class("accessor-order:deps-and-side-objects-before-bucket")
		} else {
			r.Class("accessor-order:bucket-first")
		}
		if c.ViaProvider {
			r.Class("via:bufmodulecache-provider")
		} else {
			r.Class("via:store")
		}
		r.ClassN("tamper+restore:repaired", st.repairedAfterTam)
		r.ClassN("tamper+restore:still-unreadable-or-missing", st.stuckAfterTam)
		if st.copyPhase {
			r.NonTrivial(c.canon())
			r.Sample(map[string]any{"files": len(c.Module.Files), "digest": c.Module.DigestType, "tar": c.Tar, "events": st.E, "crash_positions": st.crashPositions, "fault_runs": st.faultRuns, "pairs": st.pairRuns, "tamperings": st.tamperings})
		}
	})
	r.Extra("fault_positions_enumerated", sumFault+sumCrash)
	r.Extra("crash_positions_enumerated", sumCrash)
	r.Extra("single_fault_runs", sumFaultRuns)
	r.Extra("fault_pair_runs", sumPairs)
	r.Extra("tamperings", sumTamper)
	r.Extra("torn_write_positions_enumerated", sumTorn)
}

// TestReplay replays a saved case through the oracle only: the recorded history if there is one,
// otherwise every sweep of the case.
func TestReplay(t *testing.T) {
	if strings.Contains(evid.ReplayTest(), "Race") {
		replayRace(t)
		return
	}
	if strings.Contains(evid.ReplayTest(), "Session") {
		replaySession(t)
		return
	}
	if strings.Contains(evid.ReplayTest(), "Commit") {
		replayCommit(t)
		return
	}
	var c c09Case
	ok, err := evid.ReplayCase(&c)
	if !ok {
		t.Skip("no VERIF_REPLAY")
	}
	if err != nil {
		t.Fatal(err)
	}
	r := evid.R()
	defer r.Begin(t)()
	ctx := context.Background()
	if len(c.Steps) == 0 {
		var st caseStats
		if err := sweepCase(ctx, c, &st, func(key, msg string, cc c09Case) bool { return r.Fail(t, key, msg, cc) }); err != nil {
			t.Fatalf("harness: %v", err)
		}
		return
	}
	ref, err := newRef(ctx, c.Module)
	if err != nil {
		t.Fatalf("harness: %v", err)
	}
	ref.depsFirst = c.DepsFirst
	v, _, err := runSteps(ctx, c, ref, c.Steps)
	if err != nil {
		t.Fatalf("harness: %v", err)
	}
	if v != nil {
		r.Fail(t, v.key, v.msg, c)
	}
}
