// C09 races: 2-4 "processes", each with its own storageos bucket, its own real filelock.Locker
// and its own store over one cache directory, store and load one key concurrently; one of them
// may crash at a drawn storage event. In-process the processes are goroutines; the child variant
// re-executes the test binary (VERIF_CHILD=c09) once per process, the crashing child os.Exit(3)s
// inside the store. Interleavings are whatever the OS scheduler produces: exploration.
package c09

import (
	"bufio"
	"bytes"
	"context"
	"encoding/json"
	"errors"
	"fmt"
	"os"
	"os/exec"
	"strings"
	"sync"
	"testing"

	"github.com/bufbuild/buf/private/bufpkg/bufmodule"
	"github.com/bufbuild/buf/private/bufpkg/bufmodule/bufmodulestore"
	"github.com/bufbuild/buf/private/pkg/storage/storageos"
	"github.com/bufbuild/buf/private/pkg/thread"
	"github.com/bufbuild/bufverif/internal/evid"
	"github.com/bufbuild/bufverif/internal/faultx"
	"pgregory.net/rapid"
)

type raceProc struct {
	Ops     []string `json:"ops"`      // put | get
	CrashAt int      `json:"crash_at"` // event index of this process' bucket, -1 = never
}

type raceCase struct {
	Module   faultx.ModuleSpec `json:"module"`
	Tar      bool              `json:"tar"`
	Par      int               `json:"par"`
	Children bool              `json:"children"`
	Procs    []raceProc        `json:"procs"`
}

func (c raceCase) canon() string { b, _ := json.Marshal(c); return string(b) }

func (c raceCase) asCase() c09Case {
	return c09Case{Module: c.Module, Tar: c.Tar, RealLocker: true}
}

func genRaceCase(t *rapid.T, children bool) raceCase {
	c := raceCase{
		Module:   faultx.GenModule(t, 1, 8),
		Tar:      rapid.IntRange(0, 3).Draw(t, "tar") == 0,
		Par:      rapid.SampledFrom([]int{1, 2, 8}).Draw(t, "par"),
		Children: children,
	}
	n := rapid.IntRange(2, 4).Draw(t, "nprocs")
	for i := 0; i < n; i++ {
		p := raceProc{CrashAt: -1}
		nops := rapid.IntRange(1, 3).Draw(t, "nops")
		for j := 0; j < nops; j++ {
			p.Ops = append(p.Ops, rapid.SampledFrom([]string{"put", "put", "get"}).Draw(t, "op"))
		}
		if i == 0 && rapid.IntRange(0, 2).Draw(t, "crasher") == 0 {
			p.Ops[0] = "put"
			p.CrashAt = rapid.IntRange(0, 40).Draw(t, "crashat")
		}
		c.Procs = append(c.Procs, p)
	}
	return c
}

type procResult struct {
	putOK     bool // some store returned nil on an undisturbed bucket
	violation *violation
	lines     []string
	err       error
	fb        *faultx.Bucket // reaped only after the final observation (reaping publishes open atomic objects)
}

// runProc executes the operations of one process on its own bucket/locker/store.
func runProc(ctx context.Context, dir string, c raceCase, i int, ref *refData, start <-chan struct{}, exitOnCrash bool) procResult {
	var res procResult
	p := c.Procs[i]
	under, err := storageos.NewProvider().NewReadWriteBucket(dir)
	if err != nil {
		res.err = err
		return res
	}
	plan := faultx.Count()
	if p.CrashAt >= 0 {
		plan = faultx.CrashAt(p.CrashAt)
		if exitOnCrash {
			k := p.CrashAt
			plan = faultx.Count()
			plan.Hook = func(e faultx.Event) {
				if e.Index >= k {
					os.Exit(3)
				}
			}
		}
	}
	fb := faultx.New(under, plan)
	res.fb = fb
	locker, err := newLocker(dir, !c.Tar)
	if err != nil {
		res.err = err
		return res
	}
	store := bufmodulestore.NewModuleDataStore(discardLogger, fb, locker, storeOptions(c.Tar)...)
	if start != nil {
		<-start
	}
	for _, op := range p.Ops {
		switch op {
		case "put":
			perr := store.PutModuleDatas(ctx, []bufmodule.ModuleData{ref.data})
			if perr == nil && !fb.Disturbed() {
				res.putOK = true
				res.lines = append(res.lines, "put ok")
			} else {
				res.lines = append(res.lines, "put err")
			}
		case "get":
			o, d, err := readStore(ctx, store, ref, false)
			if err != nil {
				res.err = err
				return res
			}
			res.lines = append(res.lines, "get "+o)
			// no tampering in a race: a hit must be fully correct, whatever the others are doing
			if o != outMiss && o != outHitOK {
				key := "race-partial-entry-visible"
				if o == outHitWrong {
					key = "cache-served-wrong-content"
				}
				res.violation = &violation{key, fmt.Sprintf("process %d read %s while other processes were storing the same key: %s", i, o, d)}
				return res
			}
		}
	}
	return res
}

func runRace(ctx context.Context, c raceCase) (*violation, error) {
	r := evid.R()
	ref, err := newRef(ctx, c.Module)
	if err != nil {
		return nil, err
	}
	ref.depsFirst = c.Par != 1
	dir, err := os.MkdirTemp("", "c09race")
	if err != nil {
		return nil, err
	}
	defer os.RemoveAll(dir)
	thread.SetParallelism(c.Par)
	defer thread.SetParallelism(1)
	results := make([]procResult, len(c.Procs))
	defer func() {
		for _, res := range results {
			if res.fb != nil {
				res.fb.Reap()
			}
		}
	}()
	if c.Children {
		results, err = runChildren(dir, c)
		if err != nil {
			return nil, err
		}
	} else {
		start := make(chan struct{})
		var wg sync.WaitGroup
		for i := range c.Procs {
			wg.Add(1)
			go func() {
				defer wg.Done()
				results[i] = runProc(ctx, dir, c, i, ref, start, false)
			}()
		}
		close(start)
		wg.Wait()
	}
	putOK := false
	var trace []string
	for i, res := range results {
		if res.err != nil {
			return nil, fmt.Errorf("process %d: %w", i, res.err)
		}
		trace = append(trace, fmt.Sprintf("p%d:%s", i, strings.Join(res.lines, ",")))
		for _, l := range res.lines {
			r.Class("race-op:" + l)
		}
		r.EvalN(len(res.lines))
		putOK = putOK || res.putOK
	}
	for _, res := range results {
		if res.violation != nil {
			res.violation.msg += "; history: " + strings.Join(trace, " ")
			return res.violation, nil
		}
	}
	// final state, fresh store
	cc := c.asCase()
	cc.RealLocker = !c.Tar
	o, d, err := readFresh(ctx, dir, cc, ref, false)
	if err != nil {
		return nil, err
	}
	r.Eval()
	r.Class("race-final:" + o)
	st := histState{disturbed: c.Procs[0].CrashAt >= 0, mustHit: putOK}
	if key, msg := judgeRead(st, o, d); key != "" {
		return &violation{key, "after the race: " + msg + "; history: " + strings.Join(trace, " ")}, nil
	}
	return nil, nil
}

// ---------------------------------------------------------------------------------------------
// child processes

type childSpec struct {
	Dir  string   `json:"dir"`
	Case raceCase `json:"case"`
	Proc int      `json:"proc"`
}

func childMain() int {
	var spec childSpec
	if err := json.Unmarshal([]byte(os.Getenv("VERIF_CHILD_SPEC")), &spec); err != nil {
		fmt.Println("child: bad spec:", err)
		return 9
	}
	ctx := context.Background()
	ref, err := newRef(ctx, spec.Case.Module)
	if err != nil {
		fmt.Println("child:", err)
		return 9
	}
	ref.depsFirst = spec.Proc%2 == 1
	thread.SetParallelism(spec.Case.Par)
	// wait for the parent's go signal
	_, _ = bufio.NewReader(os.Stdin).ReadByte()
	res := runProc(ctx, spec.Dir, spec.Case, spec.Proc, ref, nil, true)
	for _, l := range res.lines {
		fmt.Println(l)
	}
	if res.err != nil {
		fmt.Println("child: harness:", res.err)
		return 9
	}
	if res.violation != nil {
		fmt.Println("VIOLATION " + res.violation.key + "|" + res.violation.msg)
		return 4
	}
	return 0
}

func runChildren(dir string, c raceCase) ([]procResult, error) {
	type child struct {
		cmd   *exec.Cmd
		out   *bytes.Buffer
		stdin interface{ Close() error }
	}
	var children []child
	for i := range c.Procs {
		data, err := json.Marshal(childSpec{Dir: dir, Case: c, Proc: i})
		if err != nil {
			return nil, err
		}
		cmd := exec.Command(os.Args[0])
		cmd.Env = append(os.Environ(), "VERIF_CHILD=c09", "VERIF_CHILD_SPEC="+string(data), "VERIF_OUT=")
		var out bytes.Buffer
		cmd.Stdout = &out
		cmd.Stderr = &out
		stdin, err := cmd.StdinPipe()
		if err != nil {
			return nil, err
		}
		if err := cmd.Start(); err != nil {
			return nil, err
		}
		children = append(children, child{cmd, &out, stdin})
	}
	for _, ch := range children {
		_ = ch.stdin.Close() // EOF = go
	}
	results := make([]procResult, len(children))
	for i, ch := range children {
		werr := ch.cmd.Wait()
		code := 0
		var ee *exec.ExitError
		if errors.As(werr, &ee) {
			code = ee.ExitCode()
		} else if werr != nil {
			return nil, werr
		}
		for _, l := range strings.Split(strings.TrimSpace(ch.out.String()), "\n") {
			switch {
			case l == "put ok":
				results[i].putOK = true
				results[i].lines = append(results[i].lines, l)
			case strings.HasPrefix(l, "put ") || strings.HasPrefix(l, "get "):
				results[i].lines = append(results[i].lines, l)
			case strings.HasPrefix(l, "VIOLATION "):
				parts := strings.SplitN(strings.TrimPrefix(l, "VIOLATION "), "|", 2)
				if len(parts) == 2 {
					results[i].violation = &violation{parts[0], parts[1]}
				}
			}
		}
		switch code {
		case 0:
		case 3:
			results[i].lines = append(results[i].lines, "exit(3) inside store")
		case 4:
			if results[i].violation == nil {
				return nil, fmt.Errorf("child %d exited 4 without a violation line: %s", i, ch.out.String())
			}
		default:
			return nil, fmt.Errorf("child %d exited with %d: %s", i, code, ch.out.String())
		}
	}
	return results, nil
}

// ---------------------------------------------------------------------------------------------

var raceHistories, childRaceHistories int

func TestRaces(t *testing.T) {
	r := evid.R()
	ctx := context.Background()
	r.Check(t, r.Scale(400, 14000), 2, func(t *rapid.T) {
		c := genRaceCase(t, false)
		v, err := runRace(ctx, c)
		if err != nil {
			t.Fatalf("harness: %v (case %s)", err, c.canon())
		}
		raceHistories++
		r.Class("race:goroutine-processes (exploration)")
		if c.Procs[0].CrashAt >= 0 {
			r.Class("race:with-crashing-process")
		}
		r.NonTrivial("race|" + c.canon())
		if v != nil {
			r.Fail(t, v.key, v.msg, c)
		}
	})
	r.Extra("race_histories", raceHistories)
}

func TestRacesChildProcesses(t *testing.T) {
	r := evid.R()
	ctx := context.Background()
	r.Check(t, r.Scale(24, 420), 3, func(t *rapid.T) {
		c := genRaceCase(t, true)
		v, err := runRace(ctx, c)
		if err != nil {
			t.Fatalf("harness: %v (case %s)", err, c.canon())
		}
		childRaceHistories++
		r.Class("race:child-processes (exploration)")
		if c.Procs[0].CrashAt >= 0 {
			r.Class("race:with-exiting-child")
		}
		r.NonTrivial("race|" + c.canon())
		if v != nil {
			r.Fail(t, v.key, v.msg, c)
		}
	})
	r.Extra("child_process_race_histories", childRaceHistories)
}

func replayRace(t *testing.T) {
	var c raceCase
	ok, err := evid.ReplayCase(&c)
	if !ok {
		t.Skip("no VERIF_REPLAY")
	}
	if err != nil {
		t.Fatal(err)
	}
	r := evid.R()
	defer r.Begin(t)()
	// interleavings are not reproducible: repeat the history a number of times
	for i := 0; i < 50; i++ {
		v, err := runRace(context.Background(), c)
		if err != nil {
			t.Fatalf("harness: %v", err)
		}
		if v != nil {
			r.Fail(t, v.key, v.msg, c)
			return
		}
	}
}
