package c06

// Command-line domain of C06: the generated lint / breaking cases (single module) are written to a directory,
// the configuration becomes a buf.yaml (v1beta1 / v1: the module's buf.yaml; v2: the section of the command under
// test at top level or at module level, the section of the other command at top level, at module level or
// absent; a configuration without any key is no section at all), and the command runs
//
//	(a) on the directory:  buf lint <dir>          | buf breaking <dir> --against <old dir>
//	(b) on an image of it: buf lint <image> --config <file | inline JSON> | buf breaking <image> --against <old image> --config ...
//
// (image = `buf build <dir> -o image.{binpb,json,txtpb}`; an image has no module configuration, the top-level
// section of the --config file is its configuration, the defaults of the file's version if there is none).
// Both must report the reference set of the existing oracle (union of the single-rule runs minus the reference
// suppressions) and therefore the same set; exit status 0 when silent and 100 otherwise; an unknown id is
// rejected by both.

import (
	"context"
	"encoding/json"
	"fmt"
	"os"
	"path/filepath"
	"sort"
	"strings"
	"testing"

	"github.com/bufbuild/buf/private/bufpkg/bufimage"
	"github.com/bufbuild/bufverif/internal/bufcli"
	"github.com/bufbuild/bufverif/internal/bufx"
	"github.com/bufbuild/bufverif/internal/evid"
	"pgregory.net/rapid"
)

// CLICase is the replayable input of TestCLIInputKinds.
type CLICase struct {
	Case
	// Layout of the directory: v2 "implicit-module" (no modules key), "module-dot" (modules: [{path: .}]),
	// "module-subdir" (modules: [{path: <dir>}]); v1beta1 / v1 "module-dir" (the directory is the module)
	Layout string `json:"layout"`
	// Placement of the section of the command under test in the directory's buf.yaml: "top" | "module" | "absent"
	// (absent = the configuration has no key: the defaults of the version)
	Placement string `json:"placement"`
	// Other: where the section of the other command sits: "absent" | "top" | "module"
	Other        string         `json:"other_placement"`
	OtherSection map[string]any `json:"other_section,omitempty"`
	Density      string         `json:"density"`        // how the configuration was thinned out (evidence only)
	ImageConfig  string         `json:"image_config"`   // "inline-json" | "file"
	Encoding     string         `json:"image_encoding"` // binpb | json | txtpb
}

func fair(t *rapid.T, label string, n int) int {
	v := 0
	for i := 0; i < 10; i++ {
		v <<= 1
		if rapid.Bool().Draw(t, label) {
			v |= 1
		}
	}
	return v % n
}

func pickOne[T any](t *rapid.T, label string, xs []T) T { return xs[fair(t, label, len(xs))] }

func (c *CLICase) otherKind() string {
	if c.Kind == "lint" {
		return "breaking"
	}
	return "lint"
}

// moduleDir is the directory of the module below the workspace directory.
func (c *CLICase) moduleDir() string {
	if c.Layout == "module-subdir" {
		return c.Mods[0].Dir
	}
	return "."
}

// section renders the configuration of the command under test; ignore paths get the prefix.
func (c *CLICase) section(prefix string) map[string]any {
	cfg := c.Config
	m := map[string]any{}
	pre := func(ps []string) []string {
		out := make([]string, len(ps))
		for i, p := range ps {
			out[i] = prefix + p
		}
		return out
	}
	if len(cfg.Use) > 0 {
		m["use"] = cfg.Use
	}
	if len(cfg.Except) > 0 {
		m["except"] = cfg.Except
	}
	if len(cfg.Ignore) > 0 {
		m["ignore"] = pre(cfg.Ignore)
	}
	if len(cfg.IgnoreOnly) > 0 {
		io := map[string]any{}
		for id, ps := range cfg.IgnoreOnly {
			io[id] = pre(ps)
		}
		m["ignore_only"] = io
	}
	if c.Kind == "lint" {
		// comment ignores: off unless allowed in v1beta1 / v1, on unless disallowed in v2
		if cfg.Version == "v2" && !cfg.AllowCommentIgnores {
			m["disallow_comment_ignores"] = true
		}
		if cfg.Version != "v2" && cfg.AllowCommentIgnores {
			m["allow_comment_ignores"] = true
		}
	}
	return m
}

// dirConfig is the buf.yaml of the directory, imageConfig what --config gets for an image input.
func (c *CLICase) dirConfig() map[string]any {
	doc := map[string]any{"version": c.Config.Version}
	name := c.Mods[0].Name
	prefix := ""
	if c.moduleDir() != "." {
		prefix = c.moduleDir() + "/"
	}
	sec := c.section(prefix)
	if c.Config.Version != "v2" {
		if name != "" {
			doc["name"] = name
		}
		if len(sec) > 0 {
			doc[c.Kind] = sec
		}
		if c.Other != "absent" {
			doc[c.otherKind()] = c.OtherSection
		}
		return doc
	}
	mod := map[string]any{"path": c.moduleDir()}
	if c.Layout == "implicit-module" {
		if name != "" {
			doc["name"] = name
		}
	} else {
		if name != "" {
			mod["name"] = name
		}
		doc["modules"] = []any{mod}
	}
	if len(sec) > 0 {
		if c.Placement == "module" {
			mod[c.Kind] = sec
		} else {
			doc[c.Kind] = sec
		}
	}
	switch c.Other {
	case "top":
		doc[c.otherKind()] = c.OtherSection
	case "module":
		mod[c.otherKind()] = c.OtherSection
	}
	return doc
}

func (c *CLICase) imageConfig() map[string]any {
	doc := map[string]any{"version": c.Config.Version}
	if sec := c.section(""); len(sec) > 0 {
		doc[c.Kind] = sec
	}
	switch {
	case c.Other == "module" && c.Config.Version == "v2":
		doc["modules"] = []any{map[string]any{"path": ".", c.otherKind(): c.OtherSection}}
	case c.Other != "absent":
		doc[c.otherKind()] = c.OtherSection
	}
	return doc
}

// yamlOf renders maps, lists, strings and booleans as block YAML.
func yamlOf(v any, ind string) string {
	var b strings.Builder
	switch x := v.(type) {
	case map[string]any:
		keys := make([]string, 0, len(x))
		for k := range x {
			keys = append(keys, k)
		}
		sort.Slice(keys, func(i, j int) bool {
			// version first, as people write it
			if (keys[i] == "version") != (keys[j] == "version") {
				return keys[i] == "version"
			}
			return keys[i] < keys[j]
		})
		for _, k := range keys {
			switch val := x[k].(type) {
			case string:
				fmt.Fprintf(&b, "%s%s: %s\n", ind, k, val)
			case bool:
				fmt.Fprintf(&b, "%s%s: %v\n", ind, k, val)
			default:
				fmt.Fprintf(&b, "%s%s:\n%s", ind, k, yamlOf(val, ind+"  "))
			}
		}
	case []string:
		for _, s := range x {
			fmt.Fprintf(&b, "%s- %s\n", ind, s)
		}
	case []any:
		for _, e := range x {
			switch val := e.(type) {
			case string:
				fmt.Fprintf(&b, "%s- %s\n", ind, val)
			default:
				item := yamlOf(val, ind+"  ")
				b.WriteString(ind + "- " + strings.TrimPrefix(item, ind+"  "))
			}
		}
	default:
		panic(fmt.Sprintf("yamlOf: %T", v))
	}
	return b.String()
}

// ---------------------------------------------------------------------------------------------
// generation

func genCLICase(ctx context.Context, t *rapid.T) *CLICase {
	ver := pickOne(t, "config-version", []string{"v2", "v1", "v2", "v1beta1"})
	var base *Case
	if rapid.Bool().Draw(t, "cli-lint") {
		base = genLintFor(ctx, t, 1, ver)
	} else {
		base = genBreakingFor(ctx, t, 1, ver)
	}
	c := &CLICase{Case: *base}
	for i := range c.Mods {
		c.Mods[i].Target = true
	}
	for i := range c.OldMods {
		c.OldMods[i].Target = true
	}
	// density: the drawn configuration or the same with each of its parts dropped by a fair coin (the configuration
	// without any key is evaluated for every case, see noKey); an unknown id stays where it is
	c.Density = "as-drawn"
	if !c.Config.HasUnknown {
		c.Density = pickOne(t, "density", []string{"as-drawn", "thinned"})
	}
	cfg := &c.Config
	switch c.Density {
	case "thinned":
		if rapid.Bool().Draw(t, "drop-use") {
			cfg.Use = nil
		}
		if rapid.Bool().Draw(t, "drop-except") {
			cfg.Except = nil
		}
		if rapid.Bool().Draw(t, "drop-ignore") {
			cfg.Ignore = nil
		}
		if rapid.Bool().Draw(t, "drop-ignore-only") {
			cfg.IgnoreOnly = map[string][]string{}
		}
	}
	// layout and placement
	if ver == "v2" {
		c.Layout = pickOne(t, "layout", []string{"module-subdir", "module-dot", "implicit-module", "module-subdir"})
	} else {
		c.Layout = "module-dir"
	}
	places := []string{"top"}
	if ver == "v2" && c.Layout != "implicit-module" {
		places = []string{"top", "module"}
	}
	c.Placement = pickOne(t, "placement", places)
	if len(c.section("")) == 0 {
		c.Placement = "absent"
	}
	c.Other = pickOne(t, "other-placement", append([]string{"absent", "absent"}, places...))
	if c.Other != "absent" {
		if c.Kind == "lint" {
			c.OtherSection = pickOne(t, "other-section", []map[string]any{
				{"use": []any{"WIRE"}}, {"use": []any{"PACKAGE"}}, {"except": []any{"FILE_NO_DELETE"}}, {"ignore_unstable_packages": true},
				{"use": []any{"WIRE_JSON"}, "except": []any{"FIELD_SAME_ONEOF"}},
			})
		} else {
			commentKey := "allow_comment_ignores"
			if ver == "v2" {
				commentKey = "disallow_comment_ignores"
			}
			c.OtherSection = pickOne(t, "other-section", []map[string]any{
				{"use": []any{"MINIMAL"}}, {"except": []any{"ENUM_PASCAL_CASE"}}, {"use": []any{"BASIC"}, "except": []any{"ENUM_PASCAL_CASE"}},
				{commentKey: true}, {"service_suffix": "API"}, {"enum_zero_value_suffix": "_NONE"},
			})
		}
	}
	c.ImageConfig = pickOne(t, "image-config", []string{"inline-json", "file"})
	c.Encoding = pickOne(t, "image-encoding", []string{"binpb", "binpb", "json", "txtpb"})
	return c
}

// ---------------------------------------------------------------------------------------------
// oracle

type cliResult struct {
	code   int
	anns   []bufx.Ann
	stderr string
	cmd    string
}

// workArea is a prepared temporary directory: sources written, images built. The images do not depend on the
// lint / breaking sections, so several configurations of one case can be evaluated in one work area.
type workArea struct {
	tmp                 string
	curWork, curMod     string
	prevWork, prevMod   string
	imgPath, oldImgPath string
}

type tb interface {
	Fatalf(string, ...any)
	Helper()
}

// prepare writes the sources and builds the image(s) with `buf build`. ok=false: the build failed (recorded).
func prepare(ctx context.Context, t tb, r *evid.Recorder, c *CLICase) (*workArea, bool) {
	if len(c.Mods) != 1 || (c.Kind == "breaking" && len(c.OldMods) != 1) {
		t.Fatalf("harness: the command-line cases have one module, got %d / %d", len(c.Mods), len(c.OldMods))
	}
	tmp, err := os.MkdirTemp("", "c06cli")
	if err != nil {
		t.Fatalf("harness: %v", err)
	}
	w := &workArea{tmp: tmp, imgPath: filepath.Join(tmp, "image."+c.Encoding), oldImgPath: filepath.Join(tmp, "old-image."+c.Encoding)}
	dirYAML := yamlOf(c.dirConfig(), "")
	mk := func(name string, ms []Mod, files map[string]map[string]string) (string, string) {
		work := filepath.Join(tmp, name)
		mod := filepath.Join(work, filepath.FromSlash(c.moduleDir()))
		if err := bufcli.WriteFiles(work, map[string]string{"buf.yaml": dirYAML}); err != nil {
			t.Fatalf("harness: %v", err)
		}
		if err := bufcli.WriteFiles(mod, files[ms[0].Dir]); err != nil {
			t.Fatalf("harness: %v", err)
		}
		return work, mod
	}
	build := func(dir, out string) bool {
		if code, _, stderr := bufcli.Run(ctx, bufcli.Env(tmp), "", "build", dir, "-o", out); code != 0 {
			r.Fail(t, "cli:build-failed", fmt.Sprintf("`buf build <dir> -o %s` exit %d: %s\nbuf.yaml:\n%s", filepath.Base(out), code, stderr, dirYAML), c)
			return false
		}
		return true
	}
	w.curWork, w.curMod = mk("new", c.Mods, c.Files)
	if !build(w.curWork, w.imgPath) {
		return w, false
	}
	if c.Kind == "breaking" {
		w.prevWork, w.prevMod = mk("old", c.OldMods, c.Old)
		if !build(w.prevWork, w.oldImgPath) {
			return w, false
		}
	}
	return w, true
}

func (w *workArea) remove() { os.RemoveAll(w.tmp) }

// runCLI is the whole oracle for one case (also the replay entry point).
func runCLI(ctx context.Context, t tb, r *evid.Recorder, c *CLICase) {
	w, ok := prepare(ctx, t, r, c)
	defer w.remove()
	if ok {
		evaluate(ctx, t, r, c, w)
	}
}

// evaluate runs the command on the directory and on the image under the configuration of c and checks both.
func evaluate(ctx context.Context, t tb, r *evid.Recorder, c *CLICase, w *workArea) {
	tmp := w.tmp
	env := bufcli.Env(tmp)
	dirYAML := yamlOf(c.dirConfig(), "")
	for _, work := range []string{w.curWork, w.prevWork} {
		if work != "" {
			if err := bufcli.WriteFiles(work, map[string]string{"buf.yaml": dirYAML}); err != nil {
				t.Fatalf("harness: %v", err)
			}
		}
	}
	imgCfgDoc := c.imageConfig()
	imgCfgJSON, err := json.Marshal(imgCfgDoc)
	if err != nil {
		t.Fatalf("harness: %v", err)
	}
	imgCfgArg := string(imgCfgJSON)
	imgCfgShown := imgCfgArg
	if c.ImageConfig == "file" {
		imgCfgShown = yamlOf(imgCfgDoc, "")
		imgCfgArg = filepath.Join(tmp, "image-config.yaml")
		if err := os.WriteFile(imgCfgArg, []byte(imgCfgShown), 0o644); err != nil {
			t.Fatalf("harness: %v", err)
		}
	}
	rel := func(external string) string {
		for _, root := range []string{w.curMod, w.prevMod} {
			if root == "" {
				continue
			}
			if p := bufcli.RelPath(root, external); p != external && !strings.HasPrefix(p, "../") {
				return p
			}
		}
		return external
	}
	exec := func(args ...string) cliResult {
		code, stdout, stderr := bufcli.Run(ctx, env, "", args...)
		r.Eval()
		res := cliResult{code: code, stderr: stderr, cmd: "buf " + strings.ReplaceAll(strings.Join(args, " "), tmp+"/", "")}
		if code == 0 || code == 100 {
			lines, err := bufcli.ParseAnnotations(stdout)
			if err != nil {
				res.code, res.stderr = -1, fmt.Sprintf("output is not JSON lines: %v", err)
				return res
			}
			for _, l := range lines {
				res.anns = append(res.anns, bufx.Ann{Path: rel(l.Path), Line: l.Line, Col: l.Col, EndLine: l.EndLine, EndCol: l.EndCol, Type: l.Type, Message: l.Message})
			}
		}
		return res
	}
	var onDir, onImage cliResult
	if c.Kind == "lint" {
		onDir = exec("lint", w.curWork, "--error-format=json")
		onImage = exec("lint", w.imgPath, "--config", imgCfgArg, "--error-format=json")
	} else {
		onDir = exec("breaking", w.curWork, "--against", w.prevWork, "--error-format=json")
		onImage = exec("breaking", w.imgPath, "--against", w.oldImgPath, "--config", imgCfgArg, "--error-format=json")
	}
	shown := fmt.Sprintf("buf.yaml of the directory (%s, %s section %s, %s section %s):\n%s--config of the image (%s):\n%s", c.Layout, c.Kind, c.Placement, c.otherKind(), c.Other, dirYAML, c.ImageConfig, imgCfgShown)
	runs := []struct {
		name string
		res  cliResult
	}{{"cli-dir", onDir}, {"cli-image", onImage}}
	cfg := c.Config
	r.Class("cli:" + c.Kind + ":" + cfg.Version)
	if cfg.HasUnknown {
		r.Class("cli:unknown-id")
		for _, x := range runs {
			if x.res.code == 0 || x.res.code == 100 {
				r.Fail(t, x.name+":unknown-id-accepted", fmt.Sprintf("`%s` accepted a configuration with an unknown id (exit %d)\n%s", x.res.cmd, x.res.code, shown), c)
				return
			}
		}
		return
	}
	want := refRules(c.Kind, cfg)
	if len(want) == 0 {
		r.Class("cli:empty-selection")
		for _, x := range runs {
			if (x.res.code == 0 || x.res.code == 100) && len(x.res.anns) > 0 {
				r.Fail(t, x.name+":empty-selection-reports", fmt.Sprintf("`%s`: empty rule selection reported %v", x.res.cmd, x.res.anns), c)
				return
			}
		}
		return
	}
	for _, x := range runs {
		if x.res.code != 0 && x.res.code != 100 {
			r.Fail(t, x.name+":valid-config-rejected", fmt.Sprintf("`%s` exit %d: %s\n%s", x.res.cmd, x.res.code, x.res.stderr, shown), c)
			return
		}
		if (len(x.res.anns) == 0) != (x.res.code == 0) {
			r.Fail(t, x.name+":exit-status", fmt.Sprintf("`%s` printed %d annotations and exited with %d (0 = silent, 100 = annotations)", x.res.cmd, len(x.res.anns), x.res.code), c)
			return
		}
	}
	// the reference set of the API oracle
	img, err := buildMods(ctx, c.Mods, c.Files)
	if err != nil {
		t.Fatalf("harness: workspace does not build: %v", err)
	}
	var old bufimage.Image
	if c.Kind == "breaking" {
		if old, err = buildMods(ctx, c.OldMods, c.Old); err != nil {
			t.Fatalf("harness: old workspace does not build: %v", err)
		}
	}
	ref := reference(ctx, t, r, &c.Case, c, img, old, want)
	if ref == nil {
		return
	}
	for _, x := range runs {
		if !compare(t, r, c, x.res.anns, ref, x.name+":", fmt.Sprintf("`%s`\n%s", x.res.cmd, shown)) {
			return
		}
	}
	// and therefore the same set (also for what the reference leaves open)
	onDirSet := map[string]bufx.Ann{}
	for _, a := range onDir.anns {
		onDirSet[key(a)] = a
	}
	onImageSet := map[string]bufx.Ann{}
	for _, a := range onImage.anns {
		onImageSet[key(a)] = a
		if _, ok := onDirSet[key(a)]; !ok {
			r.Fail(t, "cli-image-differs-from-dir:extra:"+a.Type, fmt.Sprintf("`%s` reports %s, `%s` does not\n%s", onImage.cmd, a, onDir.cmd, shown), c)
			return
		}
	}
	for k, a := range onDirSet {
		if _, ok := onImageSet[k]; !ok {
			r.Fail(t, "cli-image-differs-from-dir:missing:"+a.Type, fmt.Sprintf("`%s` reports %s, `%s` does not\n%s", onDir.cmd, a, onImage.cmd, shown), c)
			return
		}
	}
	// evidence
	r.Class("cli:layout:" + c.Layout)
	r.Class("cli:" + c.Kind + "-section:" + c.Placement)
	r.Class("cli:other-section:" + c.Other)
	r.Class("cli:density:" + c.Density)
	r.Class("cli:image:" + c.Encoding + ":" + c.ImageConfig)
	if len(ref.expected) > 0 {
		r.Class("cli:reports-something")
	}
	for k, n := range ref.suppressedBy {
		r.ClassN("cli:suppressed-by:"+k, n)
	}
	if ref.total > 0 {
		r.NonTrivial(fmt.Sprintf("cli|%v|%v|%s|%s", c.Files, c.Old, dirYAML, imgCfgJSON))
	}
	r.Sample(map[string]any{"cli": c.Kind, "buf_yaml": dirYAML, "image_config": imgCfgShown, "annotations_alone": ref.total, "expected_after_suppression": len(ref.expected)})
}

// noKey is the same case under the configuration without any key: no section for the command under test, i.e.
// the defaults of the version (lint: STANDARD, comment ignores honoured in v2 only; breaking: FILE).
func noKey(c *CLICase) *CLICase {
	d := *c
	d.Config = Config{Version: c.Config.Version, IgnoreOnly: map[string][]string{}, AllowCommentIgnores: c.Kind == "lint" && c.Config.Version == "v2"}
	d.Density, d.Placement = "no-key", "absent"
	return &d
}

func TestCLIInputKinds(t *testing.T) {
	r := evid.R()
	ctx := context.Background()
	r.Check(t, r.Scale(64, 960), 4, func(t *rapid.T) {
		c := genCLICase(ctx, t)
		w, ok := prepare(ctx, t, r, c)
		defer w.remove()
		if !ok {
			return
		}
		evaluate(ctx, t, r, c, w)
		if len(c.section("")) > 0 {
			evaluate(ctx, t, r, noKey(c), w)
		}
	})
}
