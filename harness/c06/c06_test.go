// C06 — rule selection and suppression compose set-theoretically.
//
// Lint: wild workspaces with several planted violations, some modules non-target (imports only),
// buf:lint:ignore directives on elements / enclosing elements / unrelated elements.
// Breaking: (S, S') pairs with several edits.
// Configurations: subsets of rule / category / deprecated ids in use and except, ignore paths (files,
// directories, non-existent), ignore_only maps keyed by rule or category, allow_comment_ignores.
//
// Oracle (reference algebra written here): R(cfg) = expand(use or default) \ expand(except);
// A(r) = what rule r reports alone (measured with a single-rule configuration, no suppressions);
// Expected = U_{r in R} A(r) minus annotations under `ignore`, under `ignore_only[r]`, and (lint,
// if allowed) inside an element carrying a `buf:lint:ignore r` leading comment.
package c06

import (
	"context"
	"fmt"
	"sort"
	"strings"
	"testing"

	"buf.build/go/bufplugin/check"
	"github.com/bufbuild/buf/private/bufpkg/bufcheck"
	"github.com/bufbuild/buf/private/bufpkg/bufimage"
	"github.com/bufbuild/buf/private/bufpkg/bufmodule"
	"github.com/bufbuild/bufverif/internal/bufx"
	"github.com/bufbuild/bufverif/internal/checkx"
	"github.com/bufbuild/bufverif/internal/evid"
	"github.com/bufbuild/bufverif/internal/protogen"
	"pgregory.net/rapid"
)

func TestMain(m *testing.M) { evid.Main(m, "C06") }

type Mod struct {
	Dir    string `json:"dir"`
	Name   string `json:"name,omitempty"`
	Target bool   `json:"target"`
}

// Directive is a comment-ignore directive the harness placed, with the span of its element.
type Directive struct {
	Rule  string       `json:"rule"`
	File  string       `json:"file"`
	Start protogen.Pos `json:"start"`
	End   protogen.Pos `json:"end"`
	Elem  string       `json:"elem"`
}

// Moved is an element that lives in File now but lived in OldFile in the previous version: path-based
// suppressions (ignore, ignore_only) apply when either location is covered.
type Moved struct {
	File    string       `json:"file"`
	Start   protogen.Pos `json:"start"`
	End     protogen.Pos `json:"end"`
	OldFile string       `json:"old_file"`
}

// Config is a generated check configuration.
type Config struct {
	Version             string              `json:"version"`
	Use                 []string            `json:"use"`
	Except              []string            `json:"except"`
	Ignore              []string            `json:"ignore"`
	IgnoreOnly          map[string][]string `json:"ignore_only"`
	AllowCommentIgnores bool                `json:"allow_comment_ignores"`
	HasUnknown          bool                `json:"has_unknown"`
	// ExcludeImports (breaking only): the --exclude-imports option; without it breaking also reports import files
	ExcludeImports bool `json:"exclude_imports,omitempty"`
}

// Case is the replayable input.
type Case struct {
	Kind       string                       `json:"kind"` // lint | breaking
	Mods       []Mod                        `json:"modules"`
	Files      map[string]map[string]string `json:"files"`
	OldMods    []Mod                        `json:"old_modules,omitempty"`
	Old        map[string]map[string]string `json:"old,omitempty"`
	Directives []Directive                  `json:"directives,omitempty"`
	Moved      []Moved                      `json:"moved,omitempty"`
	Config     Config                       `json:"config"`
}

// ---------------------------------------------------------------------------------------------
// reference tables: categories and deprecations

var breakingDeprecated = map[string][]string{
	"FIELD_SAME_CTYPE":                 {"FIELD_SAME_CPP_STRING_TYPE"},
	"FIELD_SAME_LABEL":                 {"FIELD_SAME_CARDINALITY", "FIELD_WIRE_COMPATIBLE_CARDINALITY", "FIELD_WIRE_JSON_COMPATIBLE_CARDINALITY"},
	"FILE_SAME_JAVA_STRING_CHECK_UTF8": {"FIELD_SAME_JAVA_UTF8_VALIDATION"},
}

// breakingDeprecatedMulti: the deprecated ids that stand for more than one rule.
var breakingDeprecatedMulti = map[string]bool{"FIELD_SAME_LABEL": true}

func isDeprecatedBreaking(id, ver string) bool {
	_, ok := breakingDeprecated[id]
	return ok && ver != "v2"
}

func rulesOf(kind, ver string) []string {
	var out []string
	if kind == "lint" {
		for _, r := range protogen.AllLintRules() {
			// IMPORT_NO_WEAK is deprecated without replacement in every version (weak imports are unsupported)
			if protogen.LintRuleExists(r, ver) && r != "IMPORT_NO_WEAK" {
				out = append(out, r)
			}
		}
		return out
	}
	for _, r := range protogen.AllBreakingRules() {
		if protogen.RuleExists(r, ver) && !isDeprecatedBreaking(r, ver) && r != "MESSAGE_SAME_MESSAGE_SET_WIRE_FORMAT" && r != "FILE_SAME_PHP_GENERIC_SERVICES" {
			out = append(out, r)
		}
	}
	return out
}

func categoriesOf(kind string) []string {
	if kind == "lint" {
		return protogen.LintCategories
	}
	return protogen.Categories
}

func inCategory(kind, rule, cat, ver string) bool {
	if kind == "lint" {
		return protogen.LintRuleInCategory(rule, cat, ver)
	}
	return protogen.RuleInCategory(rule, cat, ver)
}

// expand turns ids (rules, categories, deprecated ids) into a rule set.
func expand(kind, ver string, ids []string) map[string]bool {
	out := map[string]bool{}
	all := rulesOf(kind, ver)
	for _, id := range ids {
		isCat := false
		for _, c := range categoriesOf(kind) {
			if c == id {
				isCat = true
			}
		}
		switch {
		case isCat:
			for _, r := range all {
				if inCategory(kind, r, id, ver) {
					out[r] = true
				}
			}
		case kind == "breaking" && isDeprecatedBreaking(id, ver):
			for _, r := range breakingDeprecated[id] {
				out[r] = true
			}
		default:
			out[id] = true
		}
	}
	return out
}

func defaultUse(kind string) []string {
	if kind == "lint" {
		return []string{"STANDARD"}
	}
	return []string{"FILE"}
}

func refRules(kind string, cfg Config) map[string]bool {
	use := cfg.Use
	if len(use) == 0 {
		use = defaultUse(kind)
	}
	r := expand(kind, cfg.Version, use)
	for x := range expand(kind, cfg.Version, cfg.Except) {
		delete(r, x)
	}
	return r
}

func under(dirOrFile, path string) bool {
	return dirOrFile == "." || dirOrFile == path || strings.HasPrefix(path, dirOrFile+"/")
}

func key(a bufx.Ann) string {
	return fmt.Sprintf("%s:%d:%d:%s:%s", a.Path, a.Line, a.Col, a.Type, a.Message)
}

// ---------------------------------------------------------------------------------------------
// building

func buildMods(ctx context.Context, ms []Mod, files map[string]map[string]string) (bufimage.Image, error) {
	ws := &protogen.Workspace{}
	specs := map[string]bufx.ModuleSpec{}
	for _, m := range ms {
		ws.Modules = append(ws.Modules, &protogen.Module{Dir: m.Dir, Name: m.Name})
		specs[m.Dir] = bufx.ModuleSpec{Target: m.Target}
	}
	set, err := bufx.ModuleSet(ctx, ws, files, specs, nil, nil)
	if err != nil {
		return nil, err
	}
	return bufimage.BuildImage(ctx, bufx.Logger, bufmodule.ModuleSetToModuleReadBucketWithOnlyProtoFiles(set))
}

func runCheck(ctx context.Context, c *Case, img, old bufimage.Image, use, except, ignore []string, ignoreOnly map[string][]string, allowComments bool, excludeImports ...bool) ([]bufx.Ann, error) {
	if c.Kind == "lint" {
		cfg, err := checkx.LintConfig(c.Config.Version, use, except, ignore, ignoreOnly, checkx.LintOptions{AllowCommentIgnores: allowComments})
		if err != nil {
			return nil, err
		}
		return checkx.Lint(ctx, cfg, img)
	}
	cfg, err := checkx.BreakingConfig(c.Config.Version, use, except, ignore, ignoreOnly, false)
	if err != nil {
		return nil, err
	}
	if len(excludeImports) > 0 && excludeImports[0] {
		cl, err := checkx.Client()
		if err != nil {
			return nil, err
		}
		return bufx.Annotations(cl.Breaking(ctx, cfg, img, old, bufcheck.BreakingWithExcludeImports()))
	}
	return checkx.Breaking(ctx, cfg, img, old)
}

func configuredRuleIDs(ctx context.Context, c *Case) ([]string, error) {
	cl, err := checkx.Client()
	if err != nil {
		return nil, err
	}
	var ids []string
	if c.Kind == "lint" {
		cfg, err := checkx.LintConfig(c.Config.Version, c.Config.Use, c.Config.Except, c.Config.Ignore, c.Config.IgnoreOnly, checkx.LintOptions{})
		if err != nil {
			return nil, err
		}
		rules, err := cl.ConfiguredRules(ctx, check.RuleTypeLint, cfg)
		if err != nil {
			return nil, err
		}
		for _, r := range rules {
			ids = append(ids, r.ID())
		}
	} else {
		cfg, err := checkx.BreakingConfig(c.Config.Version, c.Config.Use, c.Config.Except, c.Config.Ignore, c.Config.IgnoreOnly, false)
		if err != nil {
			return nil, err
		}
		rules, err := cl.ConfiguredRules(ctx, check.RuleTypeBreaking, cfg)
		if err != nil {
			return nil, err
		}
		for _, r := range rules {
			ids = append(ids, r.ID())
		}
	}
	sort.Strings(ids)
	return ids, nil
}

// ---------------------------------------------------------------------------------------------
// oracle

func run(ctx context.Context, t interface {
	Fatalf(string, ...any)
	Helper()
}, r *evid.Recorder, c *Case) {
	img, err := buildMods(ctx, c.Mods, c.Files)
	if err != nil {
		t.Fatalf("harness: workspace does not build: %v", err)
	}
	var old bufimage.Image
	if c.Kind == "breaking" {
		old, err = buildMods(ctx, c.OldMods, c.Old)
		if err != nil {
			t.Fatalf("harness: old workspace does not build: %v", err)
		}
	}
	cfg := c.Config
	got, gotErr := runCheck(ctx, c, img, old, cfg.Use, cfg.Except, cfg.Ignore, cfg.IgnoreOnly, cfg.AllowCommentIgnores, cfg.ExcludeImports)
	r.Eval()
	r.Class(c.Kind + ":" + cfg.Version)
	for _, d := range c.Directives {
		if strings.HasSuffix(d.Elem, "#extend") {
			r.Class("directive-on-extend-block")
		}
	}
	if cfg.ExcludeImports {
		r.Class("breaking:exclude-imports")
	}
	if cfg.HasUnknown {
		r.Class("unknown-id")
		if gotErr == nil {
			r.Fail(t, "unknown-id-accepted", fmt.Sprintf("configuration with an unknown id was accepted: use=%v except=%v ignore_only=%v", cfg.Use, cfg.Except, cfg.IgnoreOnly), c)
		}
		return
	}
	want := refRules(c.Kind, cfg)
	if len(want) == 0 {
		// an empty selection: the statement does not say what happens; only "nothing is reported"
		r.Class("empty-selection")
		if gotErr == nil && len(got) > 0 {
			r.Fail(t, "empty-selection-reports", fmt.Sprintf("empty rule selection reported %v", got), c)
		}
		return
	}
	if gotErr != nil {
		r.Fail(t, "valid-config-rejected", fmt.Sprintf("use=%v except=%v ignore=%v ignore_only=%v: %v", cfg.Use, cfg.Except, cfg.Ignore, cfg.IgnoreOnly, gotErr), c)
		return
	}
	// configured rules == reference expansion
	ids, err := configuredRuleIDs(ctx, c)
	if err != nil {
		r.Fail(t, "configured-rules-error", fmt.Sprintf("ConfiguredRules failed: %v", err), c)
		return
	}
	wantIDs := protogen.SortedKeys(want)
	if strings.Join(ids, ",") != strings.Join(wantIDs, ",") {
		r.Fail(t, "configured-rules-differ", fmt.Sprintf("use=%v except=%v (%s): ConfiguredRules=%v, documented expansion=%v", cfg.Use, cfg.Except, cfg.Version, diff(ids, wantIDs), diff(wantIDs, ids)), c)
		return
	}
	ref := reference(ctx, t, r, c, c, img, old, want)
	if ref == nil {
		return
	}
	if !compare(t, r, c, got, ref, "", "the combined run") {
		return
	}
	expected, suppressedBy, total := ref.expected, ref.suppressedBy, ref.total
	for k, n := range suppressedBy {
		r.ClassN("suppressed-by:"+k, n)
	}
	features := 0
	for _, b := range []bool{len(cfg.Use) > 0, len(cfg.Except) > 0, len(cfg.Ignore) > 0, len(cfg.IgnoreOnly) > 0, cfg.AllowCommentIgnores && len(c.Directives) > 0} {
		if b {
			features++
		}
	}
	if features >= 2 && len(expected) > 0 && len(expected) < total {
		r.NonTrivial(fmt.Sprintf("%v|%+v", c.Files, cfg))
	}
	for _, m := range c.Mods {
		if !m.Target {
			r.Class("has-import-only-module")
			break
		}
	}
	r.Sample(map[string]any{"kind": c.Kind, "config": cfg, "annotations_alone": total, "expected_after_suppression": len(expected), "directives": len(c.Directives)})
}

// refSets is the reference result for a case: what the configuration must report.
type refSets struct {
	want         map[string]bool     // selected rules
	expected     map[string]bufx.Ann // by key(): must be reported
	optional     map[string]bufx.Ann // may or may not be reported (outside the reference model)
	suppressedBy map[string]int
	total        int // annotations of the single-rule runs
	isImport     map[string]bool
}

// reference computes the expected set: the union of the single-rule runs minus the reference suppressions.
// nil = a single-rule run itself falsified an oracle (already recorded).
func reference(ctx context.Context, t interface {
	Fatalf(string, ...any)
	Helper()
}, r *evid.Recorder, c *Case, payload any, img, old bufimage.Image, want map[string]bool) *refSets {
	cfg := c.Config
	wantIDs := protogen.SortedKeys(want)
	// import flags
	isImport := map[string]bool{}
	for _, f := range img.Files() {
		isImport[f.Path()] = f.IsImport()
	}
	// expected = union of single-rule runs minus reference suppressions
	ignoreOnlyRules := map[string][]string{}
	for id, paths := range cfg.IgnoreOnly {
		for rule := range expand(c.Kind, cfg.Version, []string{id}) {
			ignoreOnlyRules[rule] = append(ignoreOnlyRules[rule], paths...)
		}
	}
	expected := map[string]bufx.Ann{}
	optional := map[string]bufx.Ann{} // annotations without a file path (deleted files): path-based suppression is matched against the previous file, which the reference does not model
	suppressedBy := map[string]int{}
	total := 0
	for _, rule := range wantIDs {
		alone, err := runCheck(ctx, c, img, old, []string{rule}, nil, nil, nil, false)
		r.Eval()
		if err != nil {
			r.Fail(t, "single-rule-error", fmt.Sprintf("use=[%s]: %v", rule, err), payload)
			return nil
		}
		for _, a := range alone {
			if a.Type != rule {
				r.Fail(t, "single-rule-config-reports-other-rule", fmt.Sprintf("use=[%s] reported %s", rule, a), payload)
				return nil
			}
			if isImport[a.Path] && c.Kind == "lint" {
				r.Fail(t, "import-file-reported", fmt.Sprintf("%s is only an import but got %s", a.Path, a), payload)
				return nil
			}
			total++
			sup := ""
			if isImport[a.Path] && cfg.ExcludeImports {
				// breaking reports import files too unless imports are excluded; the single-rule runs do not exclude them
				sup = "exclude-imports"
			}
			// the files an annotation belongs to: where it is now and, for a moved element, where it was
			locs := []string{a.Path}
			for _, mv := range c.Moved {
				if mv.File == a.Path && (protogen.ElemPos{Start: mv.Start, End: mv.End}).Contains(protogen.Pos{Line: a.Line, Col: a.Col}) {
					locs = append(locs, mv.OldFile)
				}
			}
			// a path suppression that only covers the previous file applies when the rule hands the previous
			// element to the annotation; that is known for the deleted-field rules (located at the message, with
			// the previous message), for other rules it depends on the rule and the values involved
			onlyViaPrevious := false
			for _, p := range cfg.Ignore {
				for i, l := range locs {
					if l != "" && under(p, l) {
						sup = "ignore"
						onlyViaPrevious = onlyViaPrevious || i > 0
					}
				}
			}
			for _, p := range ignoreOnlyRules[rule] {
				for i, l := range locs {
					if l != "" && under(p, l) {
						sup = "ignore_only"
						onlyViaPrevious = onlyViaPrevious || i > 0
					}
				}
			}
			if sup != "" && onlyViaPrevious && !strings.HasPrefix(rule, "FIELD_NO_DELETE") {
				coveredNow := false
				for _, p := range append(append([]string{}, cfg.Ignore...), ignoreOnlyRules[rule]...) {
					coveredNow = coveredNow || under(p, a.Path)
				}
				if !coveredNow {
					optional[key(a)] = a
					r.Class("annotation-on-moved-element:previous-file-suppression-rule-dependent")
					continue
				}
			}
			if len(locs) > 1 {
				r.Class("annotation-on-moved-element")
			}
			if c.Kind == "lint" && cfg.AllowCommentIgnores {
				for _, d := range c.Directives {
					if d.Rule == rule && d.File == a.Path && (protogen.ElemPos{Start: d.Start, End: d.End}).Contains(protogen.Pos{Line: a.Line, Col: a.Col}) {
						sup = "comment"
					}
				}
			}
			if sup != "" {
				suppressedBy[sup]++
				continue
			}
			if a.Path == "" && (len(cfg.Ignore) > 0 || len(ignoreOnlyRules[rule]) > 0 || cfg.ExcludeImports) {
				optional[key(a)] = a
				continue
			}
			expected[key(a)] = a
		}
	}
	return &refSets{want: want, expected: expected, optional: optional, suppressedBy: suppressedBy, total: total, isImport: isImport}
}

// compare checks a reported annotation set against the reference; keyPrefix / how name the code path observed.
func compare(t interface {
	Fatalf(string, ...any)
	Helper()
}, r *evid.Recorder, c any, got []bufx.Ann, ref *refSets, keyPrefix, how string) bool {
	var cfg Config
	var kind string
	var ndirectives int
	switch cc := c.(type) {
	case *Case:
		cfg, kind, ndirectives = cc.Config, cc.Kind, len(cc.Directives)
	case *CLICase:
		cfg, kind, ndirectives = cc.Config, cc.Kind, len(cc.Directives)
	}
	want, expected, optional, isImport := ref.want, ref.expected, ref.optional, ref.isImport
	if keyPrefix != "" {
		// the command line prints lines and columns as at least 1 (an annotation without a location is 1:1)
		expected, optional = map[string]bufx.Ann{}, map[string]bufx.Ann{}
		for _, a := range ref.expected {
			expected[key(atLeast1(a))] = atLeast1(a)
		}
		for _, a := range ref.optional {
			optional[key(atLeast1(a))] = atLeast1(a)
		}
	}
	gotSet := map[string]bufx.Ann{}
	for _, a := range got {
		gotSet[key(a)] = a
		if isImport[a.Path] && (kind == "lint" || cfg.ExcludeImports) {
			r.Fail(t, keyPrefix+"import-file-reported", fmt.Sprintf("%s: %s is only an import (imports excluded) but got %s", how, a.Path, a), c)
			return false
		}
	}
	for k, a := range expected {
		if _, ok := gotSet[k]; !ok {
			r.Fail(t, keyPrefix+"annotation-missing:"+a.Type, fmt.Sprintf("cfg %+v: rule %s alone reports %s and no suppression covers it, but %s lacks it (it reports %d annotations, of this rule: %v)", cfg, a.Type, a, how, len(got), ofType(got, a.Type)), c)
			return false
		}
	}
	for k, a := range gotSet {
		_, isOptional := optional[k]
		if _, ok := expected[k]; !ok && !isOptional {
			why := "not reported by that rule alone"
			if !want[a.Type] {
				why = "rule not selected"
			}
			r.Fail(t, keyPrefix+"annotation-extra:"+a.Type, fmt.Sprintf("cfg %+v: %s reports %s (%s, or suppressed per the reference: ignore=%v ignore_only=%v directives=%d)", cfg, how, a, why, cfg.Ignore, cfg.IgnoreOnly, ndirectives), c)
			return false
		}
	}
	return true
}

func atLeast1(a bufx.Ann) bufx.Ann {
	for _, p := range []*int{&a.Line, &a.Col, &a.EndLine, &a.EndCol} {
		if *p < 1 {
			*p = 1
		}
	}
	return a
}

func ofType(anns []bufx.Ann, typ string) []bufx.Ann {
	var out []bufx.Ann
	for _, a := range anns {
		if a.Type == typ && len(out) < 8 {
			out = append(out, a)
		}
	}
	return out
}

func diff(a, b []string) []string {
	set := map[string]bool{}
	for _, x := range b {
		set[x] = true
	}
	var out []string
	for _, x := range a {
		if !set[x] {
			out = append(out, x)
		}
	}
	return out
}

// ---------------------------------------------------------------------------------------------
// generation

func pickSome(t *rapid.T, label string, pool []string, max int) []string {
	n := rapid.IntRange(0, max).Draw(t, label+"-n")
	set := map[string]bool{}
	for i := 0; i < n && len(pool) > 0; i++ {
		set[pool[rapid.IntRange(0, len(pool)-1).Draw(t, label)]] = true
	}
	return protogen.SortedKeys(set)
}

// prefixFree drops paths that lie within another path of the list (the readers reject nested ignore paths).
func prefixFree(paths []string) []string {
	var out []string
	for _, p := range paths {
		nested := false
		for _, q := range paths {
			if q != p && under(q, p) {
				nested = true
			}
		}
		if !nested {
			out = append(out, p)
		}
	}
	return out
}

func genConfig(t *rapid.T, kind string, paths []string, hot []string) Config {
	return genConfigFor(t, kind, paths, hot, protogen.Versions[rapid.IntRange(0, 2).Draw(t, "version")])
}

// genConfigFor draws a configuration of the given version.
func genConfigFor(t *rapid.T, kind string, paths []string, hot []string, ver string) Config {
	cfg := Config{Version: ver, IgnoreOnly: map[string][]string{}}
	rules := rulesOf(kind, ver)
	ids := append(append([]string{}, categoriesOf(kind)...), rules...)
	// "hot" rule ids (rules that actually report something) are favoured so that selections matter
	var hotHere []string
	for _, h := range hot {
		for _, r := range rules {
			if r == h {
				hotHere = append(hotHere, h)
			}
		}
	}
	pool := append(append([]string{}, ids...), hotHere...)
	pool = append(pool, hotHere...)
	if kind == "breaking" && ver != "v2" {
		for d := range breakingDeprecated {
			pool = append(pool, d)
		}
		sort.Strings(pool)
	}
	if rapid.IntRange(0, 3).Draw(t, "hasuse") != 0 {
		cfg.Use = pickSome(t, "use", pool, 5)
	}
	cfg.Except = pickSome(t, "except", pool, 3)
	dirs := map[string]bool{}
	for _, p := range paths {
		for d := p; strings.Contains(d, "/"); {
			d = d[:strings.LastIndex(d, "/")]
			dirs[d] = true
		}
	}
	pathPool := append(append([]string{"does/not/exist", "nope.proto"}, paths...), protogen.SortedKeys(dirs)...)
	cfg.Ignore = prefixFree(pickSome(t, "ignore", pathPool, 2))
	for i := 0; i < rapid.IntRange(0, 2).Draw(t, "ignoreonly-n"); i++ {
		id := pool[rapid.IntRange(0, len(pool)-1).Draw(t, "ignoreonly-id")]
		cfg.IgnoreOnly[id] = prefixFree(pickSome(t, "ignoreonly-paths", pathPool, 2))
		if len(cfg.IgnoreOnly[id]) == 0 {
			delete(cfg.IgnoreOnly, id)
		}
	}
	if kind == "breaking" && ver != "v2" && rapid.IntRange(0, 2).Draw(t, "deprecated-and-replacement") == 0 {
		// a deprecated id with several replacements and one of those replacements, each with its own paths
		for _, d := range protogen.SortedKeys(breakingDeprecatedMulti) {
			repl := breakingDeprecated[d]
			if p := prefixFree(pickSome(t, "deprecated-paths", pathPool, 2)); len(p) > 0 {
				cfg.IgnoreOnly[d] = p
			}
			r := repl[rapid.IntRange(0, len(repl)-1).Draw(t, "replacement")]
			if p := prefixFree(pickSome(t, "replacement-paths", pathPool, 2)); len(p) > 0 {
				cfg.IgnoreOnly[r] = p
			}
			if len(cfg.Use) > 0 && rapid.Bool().Draw(t, "use-replacements") {
				cfg.Use = append(cfg.Use, repl...)
			}
		}
	}
	cfg.AllowCommentIgnores = kind == "lint" && rapid.IntRange(0, 3).Draw(t, "allowcomments") != 0
	unknown := true
	for i := 0; i < 4; i++ { // four fair coins: 1/16 (rapid's integer ranges are biased towards small values)
		unknown = unknown && rapid.Bool().Draw(t, "unknown")
	}
	if unknown {
		cfg.HasUnknown = true
		bad := []string{"NOT_A_RULE", "STANDARDX", "FIELD_NO_DELET", "comments"}[rapid.IntRange(0, 3).Draw(t, "badid")]
		if rapid.Bool().Draw(t, "crosstype") {
			// an id that exists, but for the other kind of check
			other := []string{"FIELD_NO_DELETE", "FILE", "WIRE_JSON", "ENUM_VALUE_NO_DELETE", "PACKAGE_NO_DELETE"}
			if kind == "breaking" {
				other = []string{"ENUM_PASCAL_CASE", "MINIMAL", "COMMENTS", "FIELD_LOWER_SNAKE_CASE", "STANDARD"}
			}
			bad = other[rapid.IntRange(0, len(other)-1).Draw(t, "crossid")]
		}
		switch rapid.IntRange(0, 2).Draw(t, "badwhere") {
		case 0:
			cfg.Use = append(cfg.Use, bad)
		case 1:
			cfg.Except = append(cfg.Except, bad)
		default:
			cfg.IgnoreOnly[bad] = []string{"x"}
		}
	}
	return cfg
}

func allPaths(files map[string]map[string]string) []string {
	var out []string
	for _, fs := range files {
		for p := range fs {
			out = append(out, p)
		}
	}
	sort.Strings(out)
	return out
}

func modsOf(ws *protogen.Workspace, t *rapid.T) []Mod {
	var out []Mod
	nTarget := 0
	for i, m := range ws.Modules {
		target := rapid.IntRange(0, 3).Draw(t, "target") != 0
		if i == len(ws.Modules)-1 && nTarget == 0 {
			target = true
		}
		if target {
			nTarget++
		}
		out = append(out, Mod{m.Dir, m.Name, target})
	}
	return out
}

// elementsAt returns the ids of commentable elements whose span contains the position.
func elementsAt(ws *protogen.Workspace, rw *protogen.RenderedWorkspace, path string, line, col int) []string {
	var out []string
	f, _ := ws.FileByPath(path)
	if f == nil {
		return nil
	}
	consider := func(id string) {
		if p, ok := rw.Pos[id]; ok && p.Contains(protogen.Pos{Line: line, Col: col}) {
			out = append(out, id)
		}
	}
	f.WalkMessages(func(m protogen.MsgRef) {
		isGroup := false
		if m.Parent != nil {
			for _, fld := range m.Parent.Fields {
				if fld.Group == m.Msg {
					isGroup = true
				}
			}
		}
		if !isGroup {
			consider(m.Msg.ID)
		}
		for _, fld := range m.Msg.Fields {
			if fld.Group == nil {
				consider(fld.ID)
			}
		}
		for _, x := range m.Msg.Extensions {
			if x.Group == nil {
				consider(x.ID)
				consider(x.ID + "#extend")
			}
		}
	})
	for _, x := range f.Extensions {
		if x.Group == nil {
			consider(x.ID)
			consider(x.ID + "#extend")
		}
	}
	f.WalkEnums(func(er protogen.EnumRef) {
		consider(er.Enum.ID)
		for _, v := range er.Enum.Values {
			consider(v.ID)
		}
	})
	for _, s := range f.Services {
		consider(s.ID)
		for _, m := range s.Methods {
			consider(m.ID)
		}
	}
	return out
}

func addDirective(ws *protogen.Workspace, id, rule string) bool {
	line := "buf:lint:ignore " + rule
	add := func(c *string) { *c = strings.TrimPrefix(*c+"\n"+line, "\n") }
	done := false
	for _, f := range ws.AllFiles() {
		f.WalkMessages(func(m protogen.MsgRef) {
			if m.Msg.ID == id {
				add(&m.Msg.Comment)
				done = true
			}
			for _, fld := range m.Msg.Fields {
				if fld.ID == id {
					add(&fld.Comment)
					done = true
				}
			}
			for _, x := range m.Msg.Extensions {
				if x.ID == id {
					add(&x.Comment)
					done = true
				}
				if x.ID+"#extend" == id {
					add(&x.ExtendComment)
					done = true
				}
			}
		})
		for _, x := range f.Extensions {
			if x.ID == id {
				add(&x.Comment)
				done = true
			}
			if x.ID+"#extend" == id {
				add(&x.ExtendComment)
				done = true
			}
		}
		f.WalkEnums(func(er protogen.EnumRef) {
			if er.Enum.ID == id {
				add(&er.Enum.Comment)
				done = true
			}
			for _, v := range er.Enum.Values {
				if v.ID == id {
					add(&v.Comment)
					done = true
				}
			}
		})
		for _, s := range f.Services {
			if s.ID == id {
				add(&s.Comment)
				done = true
			}
			for _, m := range s.Methods {
				if m.ID == id {
					add(&m.Comment)
					done = true
				}
			}
		}
	}
	return done
}

func genLint(ctx context.Context, t *rapid.T) *Case { return genLintFor(ctx, t, 0, "") }

// genLintFor: maxModules > 0 bounds the number of modules, ver != "" fixes the configuration version.
func genLintFor(ctx context.Context, t *rapid.T, maxModules int, ver string) *Case {
	gcfg := protogen.DefaultConfig()
	gcfg.MaxFiles, gcfg.Groups = 5, false
	gcfg.SharedDirs = true
	if maxModules > 0 {
		gcfg.MaxModules = maxModules
	}
	ws := protogen.GenWorkspace(t, gcfg)
	ed := protogen.NewEditor(t)
	for i := 0; i < rapid.IntRange(1, 4).Draw(t, "plants"); i++ {
		ed.ApplyPlant(ws)
	}
	c := &Case{Kind: "lint"}
	c.Mods = modsOf(ws, t)
	// first pass: what is reported where (v2, everything), to aim directives and "hot" ids
	rw := ws.Render()
	img, err := buildMods(ctx, c.Mods, rw.ByModule)
	if err != nil {
		t.Skip("planted combination does not build")
	}
	c.Config.Version = "v2"
	all, err := runCheck(ctx, c, img, nil, []string{"STANDARD", "COMMENTS", "UNARY_RPC"}, nil, nil, nil, false)
	if err != nil {
		t.Fatalf("harness: %v", err)
	}
	hotSet := map[string]bool{}
	for _, a := range all {
		hotSet[a.Type] = true
	}
	type placed struct{ id, rule string }
	var placedDirs []placed
	nDir := rapid.IntRange(0, 4).Draw(t, "directives")
	// annotations inside an extend block are few: give them their own share
	var inExtend []bufx.Ann
	for _, a := range all {
		for _, id := range elementsAt(ws, rw, a.Path, a.Line, a.Col) {
			if strings.HasSuffix(id, "#extend") {
				inExtend = append(inExtend, a)
				break
			}
		}
	}
	for i := 0; i < nDir && len(all) > 0; i++ {
		a := all[rapid.IntRange(0, len(all)-1).Draw(t, "dir-ann")]
		preferBlock := false
		if len(inExtend) > 0 && rapid.IntRange(0, 2).Draw(t, "dir-in-extend") == 0 {
			a = inExtend[rapid.IntRange(0, len(inExtend)-1).Draw(t, "dir-ext-ann")]
			preferBlock = rapid.Bool().Draw(t, "dir-on-block")
		}
		elems := elementsAt(ws, rw, a.Path, a.Line, a.Col)
		if preferBlock {
			var blocks []string
			for _, id := range elems {
				if strings.HasSuffix(id, "#extend") {
					blocks = append(blocks, id)
				}
			}
			elems = blocks
		}
		rule := a.Type
		switch rapid.IntRange(0, 5).Draw(t, "dir-kind") {
		case 0: // another rule id on the right element
			hot := protogen.SortedKeys(hotSet)
			rule = hot[rapid.IntRange(0, len(hot)-1).Draw(t, "dir-otherrule")]
		case 1: // a rule id that has this rule's id as a prefix or vice versa
			if rule == "COMMENT_ENUM" {
				rule = "COMMENT_ENUM_VALUE"
			}
		}
		if len(elems) == 0 {
			continue
		}
		id := elems[rapid.IntRange(0, len(elems)-1).Draw(t, "dir-elem")]
		if addDirective(ws, id, rule) {
			placedDirs = append(placedDirs, placed{id, rule})
		}
	}
	rw = ws.Render()
	c.Files = rw.ByModule
	for _, p := range placedDirs {
		pos := rw.Pos[p.id]
		file := rw.FileOf[p.id]
		if strings.HasSuffix(p.id, "#extend") {
			file = rw.FileOf[strings.TrimSuffix(p.id, "#extend")]
		}
		c.Directives = append(c.Directives, Directive{Rule: p.rule, File: file, Start: pos.Start, End: pos.End, Elem: p.id})
	}
	if ver != "" {
		c.Config = genConfigFor(t, "lint", allPaths(c.Files), protogen.SortedKeys(hotSet), ver)
	} else {
		c.Config = genConfig(t, "lint", allPaths(c.Files), protogen.SortedKeys(hotSet))
	}
	return c
}

func genBreaking(ctx context.Context, t *rapid.T) *Case { return genBreakingFor(ctx, t, 0, "") }

// genBreakingFor: maxModules > 0 bounds the number of modules, ver != "" fixes the configuration version.
func genBreakingFor(ctx context.Context, t *rapid.T, maxModules int, ver string) *Case {
	gcfg := protogen.DefaultConfig()
	gcfg.MaxFiles, gcfg.UnusedImports = 5, false
	gcfg.MaxPackages, gcfg.MaxModules = 2, 3
	if maxModules > 0 {
		gcfg.MaxModules = maxModules
	}
	ws := protogen.GenWorkspace(t, gcfg)
	c := &Case{Kind: "breaking"}
	c.Old = ws.Render().ByModule
	// a third of the cases: some modules are not targets (their files are imports in both images)
	target := map[string]bool{}
	if len(ws.Modules) >= 2 && rapid.Bool().Draw(t, "breaking-imports") {
		nt := rapid.IntRange(0, len(ws.Modules)-1).Draw(t, "non-target")
		for i, m := range ws.Modules {
			target[m.Dir] = i != nt
		}
	}
	isTarget := func(dir string) bool {
		v, ok := target[dir]
		return !ok || v
	}
	for _, m := range ws.Modules {
		c.OldMods = append(c.OldMods, Mod{m.Dir, m.Name, isTarget(m.Dir)})
	}
	nw := ws.Clone()
	ed := protogen.NewEditor(t)
	hot := map[string]bool{}
	// sometimes: move a message to a sibling file of its package and delete one of its fields, so that an
	// annotation's current and previous locations are different files
	var movedMsg *protogen.Message
	var movedFrom string
	if rapid.Bool().Draw(t, "move") {
		if m, from, _, ok := ed.MoveMessage(nw); ok {
			movedMsg, movedFrom = m, from.Path
			if f := ed.DeleteFieldOf(m); f != nil {
				hot["FIELD_NO_DELETE"] = true
				hot["FIELD_NO_DELETE_UNLESS_NUMBER_RESERVED"] = true
				hot["MESSAGE_NO_DELETE"] = true
			}
		}
	}
	// sometimes: cardinality changes, whose three rules replace one deprecated id (ignore_only keyed by the
	// deprecated id and by one of its replacements must stay separate)
	if rapid.IntRange(0, 2).Draw(t, "cardinality") == 0 {
		for k := rapid.IntRange(1, 3).Draw(t, "ncardinality"); k > 0; k-- {
			name := []string{"optional-to-repeated", "repeated-to-optional"}[rapid.IntRange(0, 1).Draw(t, "cardinalityop")]
			if e := ed.ApplyBreakingNamed(nw, name); e != nil {
				for _, r := range e.Rules {
					hot[r] = true
				}
			}
		}
	}
	type movedElem struct{ id, from string }
	var alsoMoved []movedElem
	for i := 0; i < rapid.IntRange(2, 5).Draw(t, "edits"); i++ {
		e := ed.ApplyBreaking(nw)
		if e == nil {
			continue
		}
		for _, r := range e.Rules {
			hot[r] = true
		}
		if e.MovedID != "" {
			// the catalogue's own move operator: later annotations inside the element have a previous file too
			// (an element may move several times: its previous file is the one of the old version)
			known := movedMsg != nil && movedMsg.ID == e.MovedID
			for _, mv := range alsoMoved {
				known = known || mv.id == e.MovedID
			}
			if !known {
				alsoMoved = append(alsoMoved, movedElem{e.MovedID, e.File})
			}
		}
	}
	nr := nw.Render()
	c.Files = nr.ByModule
	for _, m := range nw.Modules {
		c.Mods = append(c.Mods, Mod{m.Dir, m.Name, isTarget(m.Dir)})
	}
	if _, err := buildMods(ctx, c.Mods, c.Files); err != nil {
		t.Skip("edited combination does not build")
	}
	paths := allPaths(c.Files)
	if movedMsg != nil {
		if pos, ok := nr.Pos[movedMsg.ID]; ok && nr.FileOf[movedMsg.ID] != movedFrom {
			c.Moved = append(c.Moved, Moved{File: nr.FileOf[movedMsg.ID], Start: pos.Start, End: pos.End, OldFile: movedFrom})
			// make suppressions of the old location likely
			paths = append(paths, movedFrom, movedFrom, movedFrom)
		}
	}
	for _, mv := range alsoMoved {
		if pos, ok := nr.Pos[mv.id]; ok && nr.FileOf[mv.id] != mv.from {
			c.Moved = append(c.Moved, Moved{File: nr.FileOf[mv.id], Start: pos.Start, End: pos.End, OldFile: mv.from})
			paths = append(paths, mv.from)
		}
	}
	if ver != "" {
		c.Config = genConfigFor(t, "breaking", paths, protogen.SortedKeys(hot), ver)
	} else {
		c.Config = genConfig(t, "breaking", paths, protogen.SortedKeys(hot))
	}
	if len(target) > 0 {
		c.Config.ExcludeImports = rapid.IntRange(0, 3).Draw(t, "exclude-imports") != 0
	}
	return c
}

func TestLintComposition(t *testing.T) {
	r := evid.R()
	ctx := context.Background()
	r.Check(t, r.Scale(400, 12000), 1, func(t *rapid.T) {
		run(ctx, t, r, genLint(ctx, t))
	})
}

func TestBreakingComposition(t *testing.T) {
	r := evid.R()
	ctx := context.Background()
	r.Check(t, r.Scale(300, 9000), 2, func(t *rapid.T) {
		run(ctx, t, r, genBreaking(ctx, t))
	})
}

// TestCategoryNesting: MINIMAL within BASIC within STANDARD, as rule sets and as annotation sets.
func TestCategoryNesting(t *testing.T) {
	r := evid.R()
	ctx := context.Background()
	r.Check(t, r.Scale(80, 2500), 3, func(t *rapid.T) {
		c := genLint(ctx, t)
		img, err := buildMods(ctx, c.Mods, c.Files)
		if err != nil {
			t.Fatalf("harness: %v", err)
		}
		for _, ver := range protogen.Versions {
			c.Config = Config{Version: ver}
			var prev map[string]bool
			prevName := ""
			for _, cat := range []string{"MINIMAL", "BASIC", "STANDARD"} {
				anns, err := runCheck(ctx, c, img, nil, []string{cat}, nil, nil, nil, false)
				r.Eval()
				if err != nil {
					r.Fail(t, "lint-error", fmt.Sprintf("Lint(%s,%s): %v", cat, ver, err), c)
					return
				}
				cur := map[string]bool{}
				for _, a := range anns {
					cur[key(a)] = true
				}
				for k := range prev {
					if !cur[k] {
						r.Fail(t, "category-not-nested:"+prevName+"-in-"+cat, fmt.Sprintf("[%s] %s reports %s but %s does not", ver, prevName, k, cat), c)
						return
					}
				}
				prev, prevName = cur, cat
			}
			if len(prev) > 0 {
				r.NonTrivial(fmt.Sprintf("nest|%s|%v", ver, c.Files))
			}
		}
	})
}

func TestReplay(t *testing.T) {
	if strings.Contains(evid.ReplayTest(), "TestCLIInputKinds") {
		var cc CLICase
		ok, err := evid.ReplayCase(&cc)
		if !ok {
			t.Skip("no VERIF_REPLAY")
		}
		if err != nil {
			t.Fatal(err)
		}
		r := evid.R()
		defer r.Begin(t)()
		runCLI(context.Background(), t, r, &cc)
		return
	}
	var c Case
	ok, err := evid.ReplayCase(&c)
	if !ok {
		t.Skip("no VERIF_REPLAY")
	}
	if err != nil {
		t.Fatal(err)
	}
	r := evid.R()
	defer r.Begin(t)()
	run(context.Background(), t, r, &c)
}
