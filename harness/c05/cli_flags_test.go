package c05

// The boolean lint options (rpc_allow_same_request_response, rpc_allow_google_protobuf_empty_requests,
// rpc_allow_google_protobuf_empty_responses) read from buf.yaml: a small service whose RPCs use
// google.protobuf.Empty as request, as response, and one message as both, is linted through the command line
// under every drawn combination of the flags (v1beta1 / v1 / v2; v2: workspace-level or module-level section)
// and through the API with the same options built directly. Both must report the same (rule, line) set.

import (
	"context"
	"fmt"
	"os"
	"path/filepath"
	"sort"
	"strings"
	"testing"

	"github.com/bufbuild/bufverif/internal/bufcli"
	"github.com/bufbuild/bufverif/internal/bufx"
	"github.com/bufbuild/bufverif/internal/checkx"
	"github.com/bufbuild/bufverif/internal/evid"
	"pgregory.net/rapid"
)

// FlagCase is the replayable input of TestCLIBooleanOptions.
type FlagCase struct {
	Version     string             `json:"version"`
	ModuleLevel bool               `json:"module_level"`
	Options     checkx.LintOptions `json:"options"`
	Proto       string             `json:"proto"`
}

var flagRules = []string{"RPC_REQUEST_STANDARD_NAME", "RPC_RESPONSE_STANDARD_NAME", "RPC_REQUEST_RESPONSE_UNIQUE"}

func genFlagCase(t *rapid.T) *FlagCase {
	c := &FlagCase{Version: []string{"v1beta1", "v1", "v2"}[rapid.IntRange(0, 2).Draw(t, "version")]}
	c.ModuleLevel = c.Version == "v2" && rapid.Bool().Draw(t, "module-level")
	c.Options.RPCAllowSame = rapid.Bool().Draw(t, "allow-same")
	c.Options.RPCAllowEmptyReq = rapid.Bool().Draw(t, "allow-empty-requests")
	c.Options.RPCAllowEmptyResp = rapid.Bool().Draw(t, "allow-empty-responses")
	var b strings.Builder
	b.WriteString("syntax = \"proto3\";\n\npackage flags.v1;\n\nimport \"google/protobuf/empty.proto\";\n\n")
	b.WriteString("message Both {}\nmessage PingRequest {}\nmessage PingResponse {}\nmessage PullResponse {}\nmessage PushRequest {}\n\nservice FlagService {\n")
	// which rpc shapes are present is drawn, so that every flag is also seen without its violation
	if rapid.Bool().Draw(t, "rpc-empty-request") {
		b.WriteString("  rpc Pull(google.protobuf.Empty) returns (PullResponse);\n")
	}
	if rapid.Bool().Draw(t, "rpc-empty-response") {
		b.WriteString("  rpc Push(PushRequest) returns (google.protobuf.Empty);\n")
	}
	if rapid.Bool().Draw(t, "rpc-same") {
		b.WriteString("  rpc Echo(Both) returns (Both);\n")
	}
	b.WriteString("  rpc Ping(PingRequest) returns (PingResponse);\n}\n")
	c.Proto = b.String()
	return c
}

func runFlagCase(ctx context.Context, t interface {
	Fatalf(string, ...any)
	Helper()
}, r *evid.Recorder, c *FlagCase) {
	tmp, err := os.MkdirTemp("", "c05flags-")
	if err != nil {
		t.Fatalf("harness: %v", err)
	}
	defer os.RemoveAll(tmp)
	var section strings.Builder
	ind := "  "
	if c.ModuleLevel {
		ind = "      "
	}
	fmt.Fprintf(&section, "%suse:\n", ind)
	for _, rule := range flagRules {
		fmt.Fprintf(&section, "%s  - %s\n", ind, rule)
	}
	if c.Options.RPCAllowSame {
		fmt.Fprintf(&section, "%srpc_allow_same_request_response: true\n", ind)
	}
	if c.Options.RPCAllowEmptyReq {
		fmt.Fprintf(&section, "%srpc_allow_google_protobuf_empty_requests: true\n", ind)
	}
	if c.Options.RPCAllowEmptyResp {
		fmt.Fprintf(&section, "%srpc_allow_google_protobuf_empty_responses: true\n", ind)
	}
	var y string
	switch {
	case c.Version != "v2":
		y = "version: " + c.Version + "\nlint:\n" + section.String()
	case c.ModuleLevel:
		y = "version: v2\nmodules:\n  - path: .\n    lint:\n" + section.String()
	default:
		y = "version: v2\nlint:\n" + section.String()
	}
	files := map[string]string{"buf.yaml": y, "flags/v1/flags.proto": c.Proto}
	if err := bufcli.WriteFiles(tmp, files); err != nil {
		t.Fatalf("harness: %v", err)
	}
	code, stdout, stderr := bufcli.Run(ctx, bufcli.Env(tmp), "", "lint", tmp, "--error-format=json")
	r.Eval()
	if code != 0 && code != 100 {
		r.Fail(t, "cli:valid-config-rejected", fmt.Sprintf("buf lint exit %d with buf.yaml\n%s\nstderr: %s", code, y, stderr), c)
		return
	}
	anns, err := bufcli.ParseAnnotations(stdout)
	if err != nil {
		r.Fail(t, "cli:output-not-json", err.Error(), c)
		return
	}
	var got []string
	for _, a := range anns {
		got = append(got, fmt.Sprintf("%s:%d", a.Type, a.Line))
	}
	sort.Strings(got)
	// the same through the API, options built directly
	img, err := bufx.BuildImage(ctx, wsOf([]Mod{{Dir: "m"}}), map[string]map[string]string{"m": {"flags/v1/flags.proto": c.Proto}})
	if err != nil {
		t.Fatalf("harness: %v", err)
	}
	cfg, err := checkx.LintConfig(c.Version, flagRules, nil, nil, nil, c.Options)
	if err != nil {
		t.Fatalf("harness: %v", err)
	}
	api, err := checkx.Lint(ctx, cfg, img)
	r.Eval()
	if err != nil {
		r.Fail(t, "lint-error", err.Error(), c)
		return
	}
	var want []string
	for _, a := range api {
		want = append(want, fmt.Sprintf("%s:%d", a.Type, a.Line))
	}
	sort.Strings(want)
	if strings.Join(got, " ") != strings.Join(want, " ") {
		r.Fail(t, "cli-differs-from-api:boolean-options", fmt.Sprintf("options %+v written as\n%s\n`buf lint` reports %v, the API with the same options reports %v", c.Options, y, got, want), c)
		return
	}
	if (code == 100) != (len(got) > 0) {
		r.Fail(t, "cli:exit-status", fmt.Sprintf("exit %d with %d annotations", code, len(got)), c)
		return
	}
	n := 0
	for _, b := range []bool{c.Options.RPCAllowSame, c.Options.RPCAllowEmptyReq, c.Options.RPCAllowEmptyResp} {
		if b {
			n++
		}
	}
	r.Class(fmt.Sprintf("cli-flags:%s:%d-of-3-set", c.Version, n))
	if n > 0 && n < 3 {
		r.NonTrivial(y + c.Proto)
	}
	_ = filepath.Join
}

func TestCLIBooleanOptions(t *testing.T) {
	r := evid.R()
	ctx := context.Background()
	r.Check(t, r.Scale(120, 2400), 6, func(t *rapid.T) {
		runFlagCase(ctx, t, r, genFlagCase(t))
	})
}
