package c05

// Command-line domain of C05: the clean-by-construction workspace, the drawn rule options and the planted
// variant are written to a directory together with the configuration FILES that express the options
// (v1beta1 / v1: buf.work.yaml + one buf.yaml per module; v2: one buf.yaml whose lint section sits at workspace
// level, at module level, or both - a module-level section replaces the workspace-level one for that module),
// and `buf lint <dir> --error-format=json` is run in-process. The set of keys of every lint section is drawn
// (one key of any kind alone, two keys, or a random subset), every module has its own effective configuration
// and is made clean under exactly that configuration.
//
// Oracle: (1) the annotation set of the command equals the union over the modules of what the bufcheck API
// reports for the module's files under the module's effective configuration (effective = reference reading of
// the files written here, not bufconfig's); (2) the same clean / planted oracle as TestClean / TestPlanted on
// the command's output; (3) exit status 0 when silent and 100 otherwise.

import (
	"context"
	"fmt"
	"os"
	"path/filepath"
	"sort"
	"strings"
	"testing"

	"github.com/bufbuild/buf/private/bufpkg/bufimage"
	"github.com/bufbuild/buf/private/bufpkg/bufmodule"
	"github.com/bufbuild/bufverif/internal/bufcli"
	"github.com/bufbuild/bufverif/internal/bufx"
	"github.com/bufbuild/bufverif/internal/checkx"
	"github.com/bufbuild/bufverif/internal/evid"
	"github.com/bufbuild/bufverif/internal/protogen"
	"pgregory.net/rapid"
)

// LintSection is one `lint:` section of a configuration file. Kinds lists the kinds of keys it has.
type LintSection struct {
	Kinds               []string            `json:"kinds"`
	Use                 []string            `json:"use,omitempty"`
	Except              []string            `json:"except,omitempty"`
	Ignore              []string            `json:"ignore,omitempty"` // relative to the configuration file; never an existing path
	IgnoreOnly          map[string][]string `json:"ignore_only,omitempty"`
	EnumZeroValueSuffix string              `json:"enum_zero_value_suffix,omitempty"`
	ServiceSuffix       string              `json:"service_suffix,omitempty"`
	RPCAllowSame        bool                `json:"rpc_allow_same_request_response,omitempty"`
	RPCAllowEmptyReq    bool                `json:"rpc_allow_google_protobuf_empty_requests,omitempty"`
	RPCAllowEmptyResp   bool                `json:"rpc_allow_google_protobuf_empty_responses,omitempty"`
	// CommentIgnores: the non-default value of the version (v1beta1/v1 `allow_comment_ignores: true`, v2
	// `disallow_comment_ignores: true`); the generated sources carry no directive, the key only makes the section non-empty
	CommentIgnores bool `json:"comment_ignores,omitempty"`
}

// CLICase is the replayable input of TestCLIConfiguredOptions.
type CLICase struct {
	Case
	Version   string                  `json:"config_version"`
	Mode      string                  `json:"section_mode,omitempty"`   // how the sections were drawn (evidence only)
	SingleDir bool                    `json:"single_dir,omitempty"`     // v1beta1/v1 with one module: the module directory itself is the input (no buf.work.yaml)
	Workspace *LintSection            `json:"workspace_lint,omitempty"` // v2: the top-level section
	Module    map[string]*LintSection `json:"module_lint,omitempty"`    // v2: module-level section; v1beta1/v1: the section of the module's buf.yaml
}

// EffCfg is the configuration in effect for one module (reference reading of the files).
type EffCfg struct {
	Use     []string           `json:"use"`
	Except  []string           `json:"except,omitempty"`
	Options checkx.LintOptions `json:"options"`
}

var sectionKinds = []string{
	"use", "except", "ignore", "ignore_only", "enum_zero_value_suffix", "service_suffix",
	"rpc_allow_same_request_response", "rpc_allow_google_protobuf_empty_requests", "rpc_allow_google_protobuf_empty_responses",
	"comment_ignores",
}

func (s *LintSection) has(kind string) bool {
	for _, k := range s.Kinds {
		if k == kind {
			return true
		}
	}
	return false
}

func (s *LintSection) add(kind string) {
	if !s.has(kind) {
		s.Kinds = append(s.Kinds, kind)
		sort.Strings(s.Kinds)
	}
}

func (s *LintSection) drop(kind string) {
	var out []string
	for _, k := range s.Kinds {
		if k != kind {
			out = append(out, k)
		}
	}
	s.Kinds = out
}

// governing returns the section in effect for a module, nil = the defaults of the version.
func (c *CLICase) governing(dir string) *LintSection {
	if s := c.Module[dir]; s != nil {
		return s
	}
	if c.Version == "v2" {
		return c.Workspace
	}
	return nil
}

func (c *CLICase) effective(dir string) EffCfg {
	e := EffCfg{Use: []string{"STANDARD"}}
	if s := c.governing(dir); s != nil {
		if len(s.Use) > 0 {
			e.Use = s.Use
		}
		e.Except = s.Except
		e.Options = checkx.LintOptions{
			EnumZeroValueSuffix: s.EnumZeroValueSuffix, ServiceSuffix: s.ServiceSuffix,
			RPCAllowSame: s.RPCAllowSame, RPCAllowEmptyReq: s.RPCAllowEmptyReq, RPCAllowEmptyResp: s.RPCAllowEmptyResp,
		}
	}
	return e
}

// activeRules is the documented expansion of use minus except.
func activeRules(ver string, use, except []string) map[string]bool {
	expand := func(ids []string) map[string]bool {
		out := map[string]bool{}
		for _, id := range ids {
			for _, r := range protogen.AllLintRules() {
				if protogen.LintRuleExists(r, ver) && (r == id || protogen.LintRuleInCategory(r, id, ver)) {
					out[r] = true
				}
			}
		}
		return out
	}
	a := expand(use)
	for r := range expand(except) {
		delete(a, r)
	}
	return a
}

func (s *LintSection) yaml(ver, ind string) string {
	var b strings.Builder
	list := func(key string, xs []string) {
		if len(xs) == 0 {
			return
		}
		fmt.Fprintf(&b, "%s%s:\n", ind, key)
		for _, x := range xs {
			fmt.Fprintf(&b, "%s  - %s\n", ind, x)
		}
	}
	list("use", s.Use)
	list("except", s.Except)
	list("ignore", s.Ignore)
	if len(s.IgnoreOnly) > 0 {
		fmt.Fprintf(&b, "%signore_only:\n", ind)
		for _, k := range keysOf(s.IgnoreOnly) {
			list("  "+k, s.IgnoreOnly[k])
		}
	}
	if s.EnumZeroValueSuffix != "" {
		fmt.Fprintf(&b, "%senum_zero_value_suffix: %s\n", ind, s.EnumZeroValueSuffix)
	}
	if s.ServiceSuffix != "" {
		fmt.Fprintf(&b, "%sservice_suffix: %s\n", ind, s.ServiceSuffix)
	}
	if s.RPCAllowSame {
		fmt.Fprintf(&b, "%srpc_allow_same_request_response: true\n", ind)
	}
	if s.RPCAllowEmptyReq {
		fmt.Fprintf(&b, "%srpc_allow_google_protobuf_empty_requests: true\n", ind)
	}
	if s.RPCAllowEmptyResp {
		fmt.Fprintf(&b, "%srpc_allow_google_protobuf_empty_responses: true\n", ind)
	}
	if s.CommentIgnores {
		if ver == "v2" {
			fmt.Fprintf(&b, "%sdisallow_comment_ignores: true\n", ind)
		} else {
			fmt.Fprintf(&b, "%sallow_comment_ignores: true\n", ind)
		}
	}
	return b.String()
}

// configFiles renders the configuration files (paths relative to the workspace directory).
func (c *CLICase) configFiles() map[string]string {
	out := map[string]string{}
	if c.Version == "v2" {
		var y strings.Builder
		y.WriteString("version: v2\nmodules:\n")
		for _, m := range c.Mods {
			fmt.Fprintf(&y, "  - path: %s\n", m.Dir)
			if m.Name != "" {
				fmt.Fprintf(&y, "    name: %s\n", m.Name)
			}
			if s := c.Module[m.Dir]; s != nil {
				y.WriteString("    lint:\n" + s.yaml("v2", "      "))
			}
		}
		if c.Workspace != nil {
			y.WriteString("lint:\n" + c.Workspace.yaml("v2", "  "))
		}
		out["buf.yaml"] = y.String()
		return out
	}
	if !c.SingleDir {
		var w strings.Builder
		w.WriteString("version: v1\ndirectories:\n")
		for _, m := range c.Mods {
			fmt.Fprintf(&w, "  - %s\n", m.Dir)
		}
		out["buf.work.yaml"] = w.String()
	}
	for _, m := range c.Mods {
		y := "version: " + c.Version + "\n"
		if m.Name != "" {
			y += "name: " + m.Name + "\n"
		}
		if s := c.Module[m.Dir]; s != nil {
			y += "lint:\n" + s.yaml(c.Version, "  ")
		}
		out[m.Dir+"/buf.yaml"] = y
	}
	return out
}

// ---------------------------------------------------------------------------------------------
// generation

func keysOf[V any](m map[string]V) []string {
	out := make([]string, 0, len(m))
	for k := range m {
		out = append(out, k)
	}
	sort.Strings(out)
	return out
}

// fair draws 0..n-1 uniformly (rapid's integer ranges are biased towards small values).
func fair(t *rapid.T, label string, n int) int {
	v := 0
	for i := 0; i < 10; i++ {
		v <<= 1
		if rapid.Bool().Draw(t, label) {
			v |= 1
		}
	}
	return v % n
}

func pickOne[T any](t *rapid.T, label string, xs []T) T {
	return xs[fair(t, label, len(xs))]
}

// drawKinds: one kind alone (half of the sections), two kinds, or a random subset.
func drawKinds(t *rapid.T) []string {
	set := map[string]bool{}
	switch {
	case rapid.Bool().Draw(t, "single-key"):
		set[pickOne(t, "kind", sectionKinds)] = true
	case rapid.Bool().Draw(t, "two-keys"):
		set[pickOne(t, "kind", sectionKinds)] = true
		set[pickOne(t, "kind", sectionKinds)] = true
	default:
		for _, k := range sectionKinds {
			if rapid.Bool().Draw(t, "has-"+k) {
				set[k] = true
			}
		}
	}
	return protogen.SortedKeys(set)
}

// drawSection draws a non-empty lint section (nil if nothing is left). pathPrefix is put before ignore paths so
// that they lie where the reader accepts them; customSuffix says whether suffix options other than the default
// values may be drawn (not for modules that carry a planted violation of a catalogue operator).
func drawSection(t *rapid.T, ver, pathPrefix string, customSuffix bool, p *protogen.Plant, forced ...string) *LintSection {
	s := &LintSection{Kinds: forced}
	if len(forced) == 0 {
		s.Kinds = drawKinds(t)
	}
	exists := func(ids []string) []string {
		var out []string
		for _, id := range ids {
			isCat := false
			for _, c := range protogen.LintCategories {
				isCat = isCat || c == id
			}
			if isCat || protogen.LintRuleExists(id, ver) {
				out = append(out, id)
			}
		}
		return out
	}
	plantRule := []string{}
	if p != nil && p.Rule != "IMPORT_NO_WEAK" {
		plantRule = exists([]string{p.Rule})
	}
	for _, k := range s.Kinds {
		switch k {
		case "use":
			choices := [][]string{{"STANDARD"}, {"DEFAULT"}, {"BASIC"}, {"MINIMAL"}, {"COMMENTS"}, {"UNARY_RPC"}, {"COMMENTS", "MINIMAL"}, {"COMMENTS", "STANDARD", "UNARY_RPC"}}
			if len(plantRule) > 0 {
				choices = append(choices, plantRule, plantRule, append([]string{"MINIMAL"}, plantRule...))
			}
			s.Use = pickOne(t, "use", choices)
		case "except":
			choices := [][]string{{"ENUM_ZERO_VALUE_SUFFIX"}, {"SERVICE_SUFFIX"}, {"RPC_REQUEST_STANDARD_NAME"}, {"ENUM_PASCAL_CASE"}, {"COMMENTS"}, {"UNARY_RPC"}, {"ENUM_PASCAL_CASE", "UNARY_RPC"}}
			if len(plantRule) > 0 {
				choices = append(choices, plantRule, plantRule)
			}
			s.Except = exists(pickOne(t, "except", choices))
		case "ignore":
			s.Ignore = []string{pathPrefix + pickOne(t, "ignore", []string{"does/not/exist", "nope.proto", "zz"})}
		case "ignore_only":
			id := pickOne(t, "ignore-only-id", exists([]string{"ENUM_PASCAL_CASE", "SERVICE_SUFFIX", "COMMENTS", "STANDARD", "PACKAGE_VERSION_SUFFIX"}))
			s.IgnoreOnly = map[string][]string{id: {pathPrefix + pickOne(t, "ignore-only-path", []string{"does/not/exist", "nope.proto"})}}
		case "enum_zero_value_suffix":
			s.EnumZeroValueSuffix = "_UNSPECIFIED" // the default value, spelled out
			if customSuffix && fair(t, "zero-suffix-explicit-default", 6) != 0 {
				s.EnumZeroValueSuffix = pickOne(t, "zs", []string{"_NONE", "_UNKNOWN", "_ZERO_VALUE"})
			}
		case "service_suffix":
			s.ServiceSuffix = "Service"
			if customSuffix && fair(t, "service-suffix-explicit-default", 6) != 0 {
				s.ServiceSuffix = pickOne(t, "ss", []string{"API", "Endpoint"})
			}
		case "rpc_allow_same_request_response":
			s.RPCAllowSame = true
		case "rpc_allow_google_protobuf_empty_requests":
			s.RPCAllowEmptyReq = true
		case "rpc_allow_google_protobuf_empty_responses":
			s.RPCAllowEmptyResp = true
		case "comment_ignores":
			s.CommentIgnores = true
		}
	}
	if len(s.Except) == 0 {
		s.drop("except")
	}
	use := s.Use
	if len(use) == 0 {
		use = []string{"STANDARD"}
	}
	if len(activeRules(ver, use, s.Except)) == 0 {
		// an empty selection is rejected by design: keep the selection non-empty
		s.Except = nil
		s.drop("except")
	}
	if len(s.Kinds) == 0 {
		return nil
	}
	return s
}

func siteFile(ws *protogen.Workspace, rw *protogen.RenderedWorkspace, id string) string {
	for _, f := range ws.AllFiles() {
		if f.ID == id {
			return f.Path
		}
	}
	return rw.FileOf[id]
}

func applyOptionsModule(m *protogen.Module, o checkx.LintOptions) {
	applyOptions(&protogen.Workspace{Modules: []*protogen.Module{m}}, o)
}

func genCLICase(t *rapid.T) *CLICase {
	gcfg := protogen.StyledConfig()
	gcfg.MaxModules, gcfg.MaxPackages, gcfg.MaxFiles = 5, 6, 8
	ws := protogen.GenWorkspace(t, gcfg)
	c := &CLICase{Module: map[string]*LintSection{}}
	c.Version = pickOne(t, "config-version", []string{"v2", "v1", "v2", "v1beta1", "v2"})
	// section mode: every module has a section of its own with exactly one key, the kinds going round the
	// modules from a drawn start; or everything drawn freely
	singleKeys := fair(t, "single-key-per-module", 3) != 0
	firstKind := fair(t, "first-kind", len(sectionKinds))
	c.Mode = "free"
	if singleKeys {
		c.Mode = "one-single-key-section-per-module"
	}
	kind := pickOne(t, "case-kind", []string{"plant", "clean", "plant", "option-plant", "clean", "plant"})
	var p *protogen.Plant
	plantedMods := map[string]bool{}
	if kind == "plant" {
		ed := protogen.NewEditor(t)
		// the option-governed rpc violations get their own share: the rpc_allow_* keys matter only for them
		if rapid.IntRange(0, 3).Draw(t, "option-governed-plant") == 0 {
			p = ed.ApplyPlantNamed(ws, []string{"rpc-empty", "rpc-empty", "rpc-same-request-response"}[rapid.IntRange(0, 2).Draw(t, "which-governed")])
		}
		if p == nil {
			p = ed.ApplyPlant(ws)
		}
		if p != nil {
			rw := ws.Render()
			for _, id := range p.Sites {
				if f, m := ws.FileByPath(siteFile(ws, rw, id)); f != nil {
					plantedMods[m.Dir] = true
				}
			}
		}
	}
	c.SingleDir = c.Version != "v2" && len(ws.Modules) == 1 && rapid.Bool().Draw(t, "single-dir")
	// sections: per module first, then (v2) the workspace-level one
	for i, m := range ws.Modules {
		prefix := ""
		if c.Version == "v2" {
			prefix = m.Dir + "/"
		}
		if singleKeys {
			c.Module[m.Dir] = drawSection(t, c.Version, prefix, !plantedMods[m.Dir], p, sectionKinds[(firstKind+3*i)%len(sectionKinds)])
			if c.Module[m.Dir] == nil {
				delete(c.Module, m.Dir)
			}
			continue
		}
		has := rapid.Bool().Draw(t, "module-section")
		if c.Version != "v2" {
			has = has || rapid.Bool().Draw(t, "module-section-v1")
		}
		if has {
			if s := drawSection(t, c.Version, prefix, !plantedMods[m.Dir], p); s != nil {
				c.Module[m.Dir] = s
			}
		}
	}
	if c.Version == "v2" && fair(t, "workspace-section", 3) != 0 {
		inherited := false // by a module that carries a catalogue plant
		for dir := range plantedMods {
			inherited = inherited || c.Module[dir] == nil
		}
		prefix := pickOne(t, "workspace-ignore-prefix", []string{"", ws.Modules[0].Dir + "/", ws.Modules[len(ws.Modules)-1].Dir + "/"})
		c.Workspace = drawSection(t, "v2", prefix, !inherited, p)
	}
	// the section in effect for a module, created at module level when there is none
	section := func(m *protogen.Module) *LintSection {
		if s := c.governing(m.Dir); s != nil {
			return s
		}
		c.Module[m.Dir] = &LintSection{}
		return c.Module[m.Dir]
	}
	moduleOf := func(dir string) *protogen.Module {
		for _, m := range ws.Modules {
			if m.Dir == dir {
				return m
			}
		}
		return nil
	}
	if p != nil && len(plantedMods) == 1 {
		m := moduleOf(protogen.SortedKeys(plantedMods)[0])
		// the rpc_allow_* options switch exactly their own violation off: draw them for the module of the planted rpc
		switch p.Op {
		case "rpc-empty-request", "rpc-empty-response":
			if rapid.Bool().Draw(t, "allowemptyreq") {
				s := section(m)
				s.RPCAllowEmptyReq = true
				s.add("rpc_allow_google_protobuf_empty_requests")
			}
			if rapid.Bool().Draw(t, "allowemptyresp") {
				s := section(m)
				s.RPCAllowEmptyResp = true
				s.add("rpc_allow_google_protobuf_empty_responses")
			}
		case "rpc-same-request-response":
			if rapid.Bool().Draw(t, "allowsame") {
				s := section(m)
				s.RPCAllowSame = true
				s.add("rpc_allow_same_request_response")
			}
		}
		o := c.effective(m.Dir).Options
		if (p.Op == "rpc-empty-request" && o.RPCAllowEmptyReq) || (p.Op == "rpc-empty-response" && o.RPCAllowEmptyResp) || (p.Op == "rpc-same-request-response" && o.RPCAllowSame) {
			p.Op, p.Sites = p.Op+"-allowed", nil
		}
	}
	// option plant: a custom suffix in effect for a module whose names keep the default suffix
	unappliedMod, unappliedOpt := "", ""
	if kind == "option-plant" {
		zero := rapid.Bool().Draw(t, "whichoption")
		var cands []*protogen.Module
		for _, m := range ws.Modules {
			n := 0
			for _, f := range m.Files {
				if zero {
					f.WalkEnums(func(er protogen.EnumRef) {
						for _, v := range er.Enum.Values {
							if v.Number == 0 {
								n++
							}
						}
					})
				} else {
					n += len(f.Services)
				}
			}
			if n > 0 {
				cands = append(cands, m)
			}
		}
		if len(cands) > 0 {
			m := pickOne(t, "option-plant-module", cands)
			s := section(m)
			unappliedMod = m.Dir
			if zero {
				if s.EnumZeroValueSuffix == "" || s.EnumZeroValueSuffix == "_UNSPECIFIED" {
					s.EnumZeroValueSuffix = "_NONE"
				}
				s.add("enum_zero_value_suffix")
				unappliedOpt = "enum_zero_value_suffix"
				p = &protogen.Plant{Op: "custom-zero-suffix-option", Rule: "ENUM_ZERO_VALUE_SUFFIX", Desc: "enum_zero_value_suffix=" + s.EnumZeroValueSuffix + " over _UNSPECIFIED values of module " + m.Dir}
				for _, f := range m.Files {
					f.WalkEnums(func(er protogen.EnumRef) {
						for _, v := range er.Enum.Values {
							if v.Number == 0 {
								p.Sites = append(p.Sites, v.ID)
							}
						}
					})
				}
			} else {
				if s.ServiceSuffix == "" || s.ServiceSuffix == "Service" {
					s.ServiceSuffix = "API"
				}
				s.add("service_suffix")
				unappliedOpt = "service_suffix"
				p = &protogen.Plant{Op: "custom-service-suffix-option", Rule: "SERVICE_SUFFIX", Desc: "service_suffix=" + s.ServiceSuffix + " over ...Service names of module " + m.Dir}
				for _, f := range m.Files {
					for _, sv := range f.Services {
						p.Sites = append(p.Sites, sv.ID)
					}
				}
			}
		}
	}
	// drop sections that were created above but stayed empty
	for dir, s := range c.Module {
		if len(s.Kinds) == 0 {
			delete(c.Module, dir)
		}
	}
	// every module becomes clean under the options in effect for it
	for _, m := range ws.Modules {
		o := c.effective(m.Dir).Options
		if m.Dir == unappliedMod {
			if unappliedOpt == "enum_zero_value_suffix" {
				o.EnumZeroValueSuffix = ""
			} else {
				o.ServiceSuffix = ""
			}
		}
		// a default value that is spelled out changes nothing (and renaming would undo a planted wrong suffix)
		if o.EnumZeroValueSuffix == "_UNSPECIFIED" {
			o.EnumZeroValueSuffix = ""
		}
		if o.ServiceSuffix == "Service" {
			o.ServiceSuffix = ""
		}
		applyOptionsModule(m, checkx.LintOptions{EnumZeroValueSuffix: o.EnumZeroValueSuffix, ServiceSuffix: o.ServiceSuffix})
	}
	c.Plant = p
	rw := ws.Render()
	c.Mods, c.Files = mods(ws), rw.ByModule
	if p != nil {
		for _, id := range p.Sites {
			s := Site{ID: id, File: siteFile(ws, rw, id)}
			isFile := false
			for _, f := range ws.AllFiles() {
				isFile = isFile || f.ID == id
			}
			if !isFile {
				pos, ok := rw.Pos[id]
				if !ok {
					t.Fatalf("harness: planted site %s has no recorded position (op %s)", id, p.Op)
				}
				s.Anchors = anchors(pos)
			}
			c.Sites = append(c.Sites, s)
		}
	}
	return c
}

// ---------------------------------------------------------------------------------------------
// oracle

func annKey(a bufx.Ann) string { return fmt.Sprintf("%s:%d:%d:%s", a.Path, a.Line, a.Col, a.Type) }

func runCLI(ctx context.Context, t interface {
	Fatalf(string, ...any)
	Helper()
}, r *evid.Recorder, c *CLICase) {
	tmp, err := os.MkdirTemp("", "c05cli")
	if err != nil {
		t.Fatalf("harness: %v", err)
	}
	defer os.RemoveAll(tmp)
	work := filepath.Join(tmp, "w")
	cfgFiles := c.configFiles()
	if err := bufcli.WriteFiles(work, cfgFiles); err != nil {
		t.Fatalf("harness: %v", err)
	}
	modOfFile := map[string]string{}
	for _, m := range c.Mods {
		if err := bufcli.WriteFiles(filepath.Join(work, filepath.FromSlash(m.Dir)), c.Files[m.Dir]); err != nil {
			t.Fatalf("harness: %v", err)
		}
		for p := range c.Files[m.Dir] {
			modOfFile[p] = m.Dir
		}
	}
	var cfgText strings.Builder
	for _, p := range keysOf(cfgFiles) {
		fmt.Fprintf(&cfgText, "--- %s\n%s", p, cfgFiles[p])
	}
	what := "clean"
	if c.Plant != nil {
		what = "planted " + c.Plant.Op + " (" + c.Plant.Desc + ")"
	}
	input := work
	if c.SingleDir {
		input = filepath.Join(work, filepath.FromSlash(c.Mods[0].Dir))
	}
	code, stdout, stderr := bufcli.Run(ctx, bufcli.Env(tmp), "", "lint", input, "--error-format=json")
	r.Eval()
	if code != 0 && code != 100 {
		r.Fail(t, "cli:valid-config-rejected", fmt.Sprintf("`buf lint <dir> --error-format=json` exit %d: %s\nconfiguration:\n%s", code, stderr, cfgText.String()), c)
		return
	}
	lines, err := bufcli.ParseAnnotations(stdout)
	if err != nil {
		r.Fail(t, "cli:output-not-json", fmt.Sprintf("%v", err), c)
		return
	}
	if (len(lines) == 0) != (code == 0) {
		r.Fail(t, "cli:exit-status", fmt.Sprintf("`buf lint` printed %d annotations and exited with %d (0 = silent, 100 = annotations)", len(lines), code), c)
		return
	}
	var got []bufx.Ann
	for _, l := range lines {
		rel := bufcli.RelPath(work, l.Path)
		path := ""
		for _, m := range c.Mods {
			if strings.HasPrefix(rel, m.Dir+"/") {
				path = strings.TrimPrefix(rel, m.Dir+"/")
			}
		}
		if _, ok := modOfFile[path]; !ok {
			r.Fail(t, "cli:annotation-path", fmt.Sprintf("annotation path %q is not a file of the workspace (%s)", l.Path, l.Type), c)
			return
		}
		got = append(got, bufx.Ann{Path: path, Line: l.Line, Col: l.Col, Type: l.Type, Message: l.Message})
	}
	bufx.SortAnns(got)
	// (1) the API under each module's effective configuration, on the module's own image (the module's files are
	// the targets, files of other modules are present only as far as they are imported) - the unit `buf lint`
	// documents for a workspace
	api := map[string]bufx.Ann{}
	active := map[string]map[string]bool{}
	for _, m := range c.Mods {
		specs := map[string]bufx.ModuleSpec{}
		for _, o := range c.Mods {
			specs[o.Dir] = bufx.ModuleSpec{Target: o.Dir == m.Dir}
		}
		set, err := bufx.ModuleSet(ctx, wsOf(c.Mods), c.Files, specs, nil, nil)
		if err != nil {
			t.Fatalf("harness: workspace (%s) does not build: %v", what, err)
		}
		img, err := bufimage.BuildImage(ctx, bufx.Logger, bufmodule.ModuleSetToModuleReadBucketWithOnlyProtoFiles(set))
		if err != nil {
			t.Fatalf("harness: module %s of workspace (%s) does not build: %v", m.Dir, what, err)
		}
		e := c.effective(m.Dir)
		active[m.Dir] = activeRules(c.Version, e.Use, e.Except)
		cfg, err := checkx.LintConfig(c.Version, e.Use, e.Except, nil, nil, e.Options)
		if err != nil {
			t.Fatalf("harness: %v", err)
		}
		anns, err := checkx.Lint(ctx, cfg, img)
		r.Eval()
		if err != nil {
			r.Fail(t, "lint-error", fmt.Sprintf("Lint(%+v,%s) failed: %v", e, c.Version, err), c)
			return
		}
		for _, a := range anns {
			if modOfFile[a.Path] != m.Dir {
				r.Fail(t, "import-file-reported", fmt.Sprintf("linting module %s reports %s, a file of module %s", m.Dir, a, modOfFile[a.Path]), c)
				return
			}
			api[annKey(a)] = a
		}
	}
	gotSet := map[string]bufx.Ann{}
	for _, a := range got {
		gotSet[annKey(a)] = a
	}
	describe := func(dir string) string {
		return fmt.Sprintf("module %s, effective configuration %+v (%s)", dir, c.effective(dir), c.Version)
	}
	for _, k := range keysOf(gotSet) {
		if _, ok := api[k]; !ok {
			a := gotSet[k]
			r.Fail(t, "cli-differs-from-api:extra:"+a.Type, fmt.Sprintf("[%s] `buf lint <dir>` reports %s, the API under the configuration in effect does not (%s)\nconfiguration:\n%s", what, a, describe(modOfFile[a.Path]), cfgText.String()), c)
			return
		}
	}
	for _, k := range keysOf(api) {
		if _, ok := gotSet[k]; !ok {
			a := api[k]
			r.Fail(t, "cli-differs-from-api:missing:"+a.Type, fmt.Sprintf("[%s] the API under the configuration in effect reports %s, `buf lint <dir>` does not (%s)\nconfiguration:\n%s", what, a, describe(modOfFile[a.Path]), cfgText.String()), c)
			return
		}
	}
	// (2) the clean / planted oracle on the command's output
	if c.Plant == nil {
		if len(got) > 0 {
			r.Fail(t, "cli:false-positive:"+got[0].Type, fmt.Sprintf("clean-by-construction workspace reports %v\nconfiguration:\n%s", got, cfgText.String()), c)
			return
		}
	} else {
		p := c.Plant
		if !verOK(p, c.Version) {
			// the operator's table does not describe this configuration version (e.g. a rule that exists there
			// only outside every category): the comparison with the API above is all that is asserted
			r.Class("cli:plant-outside-its-versions")
			return
		}
		exists := verOK(p, c.Version) && protogen.LintRuleExists(p.Rule, c.Version)
		sel := &Case{}
		for _, s := range c.Sites {
			if exists && active[modOfFile[s.File]][p.Rule] {
				sel.Sites = append(sel.Sites, s)
			}
		}
		for _, a := range got {
			if a.Type == p.Rule && !(exists && active[modOfFile[a.Path]][p.Rule]) {
				r.Fail(t, "cli:rule-not-selected-fired:"+p.Rule, fmt.Sprintf("[%s] %s is not selected for %s but reported %s\nconfiguration:\n%s", what, p.Rule, describe(modOfFile[a.Path]), a, cfgText.String()), c)
				return
			}
			if !alsoOK(p, a.Type) {
				r.Fail(t, "cli:unrelated-rule-fired:"+a.Type, fmt.Sprintf("[%s] unrelated rule fired: %s (%s)\nconfiguration:\n%s", what, a, describe(modOfFile[a.Path]), cfgText.String()), c)
				return
			}
		}
		siteMods := map[string]bool{}
		for _, s := range c.Sites {
			siteMods[modOfFile[s.File]] = true
		}
		if len(siteMods) > 1 {
			// the violation exists only in the union of several modules (a package import cycle through two modules,
			// which is a module cycle as well); `buf lint` looks at one module at a time: only (1) is asserted
			r.Class("cli:violation-spans-modules:" + p.Op)
		} else if key, msg := matchSites(sel, p.Rule, got); key != "" {
			r.Fail(t, "cli:"+key+":"+p.Rule, fmt.Sprintf("[%s] %s\nconfiguration:\n%s", what, msg, cfgText.String()), c)
			return
		}
		if len(sel.Sites) > 0 {
			r.Class("cli:planted-rule-selected")
		} else {
			r.Class("cli:planted-rule-not-selected-or-allowed")
		}
	}
	// evidence
	layout := c.Version
	if c.SingleDir {
		layout += ":module-dir-input"
	}
	r.Class("cli:" + layout)
	r.Class("cli:sections:" + c.Mode)
	r.Class(fmt.Sprintf("cli:modules:%d", len(c.Mods)))
	if c.Plant == nil {
		r.Class("cli:clean")
	} else {
		r.Class("cli:op:" + c.Plant.Op)
	}
	note := func(level string, s *LintSection) {
		if s == nil {
			return
		}
		r.Class("cli:section:" + level)
		if len(s.Kinds) == 1 {
			r.Class("cli:single-key-section:" + level + ":" + s.Kinds[0])
		}
	}
	nontrivial := false
	if c.Version == "v2" {
		note("workspace", c.Workspace)
		for _, m := range c.Mods {
			note("module", c.Module[m.Dir])
			if c.Module[m.Dir] != nil && c.Workspace != nil {
				r.Class("cli:module-section-replaces-workspace-section")
			}
		}
	} else {
		for _, m := range c.Mods {
			note("v1-module", c.Module[m.Dir])
		}
	}
	for _, m := range c.Mods {
		if s := c.governing(m.Dir); s != nil {
			o := c.effective(m.Dir).Options
			if (o.EnumZeroValueSuffix != "" && o.EnumZeroValueSuffix != "_UNSPECIFIED") || (o.ServiceSuffix != "" && o.ServiceSuffix != "Service") {
				r.Class("cli:module-with-custom-suffix")
				nontrivial = true
			}
			if len(s.Use) > 0 || len(s.Except) > 0 {
				nontrivial = true
			}
		}
	}
	if nontrivial {
		r.NonTrivial(fmt.Sprintf("cli|%v|%v", cfgFiles, c.Files))
	}
	r.Sample(map[string]any{"cli": what, "config_files": cfgFiles, "annotations": len(got)})
}

func TestCLIConfiguredOptions(t *testing.T) {
	r := evid.R()
	ctx := context.Background()
	r.Check(t, r.Scale(64, 1000), 4, func(t *rapid.T) {
		runCLI(ctx, t, r, genCLICase(t))
	})
}
