// C05 — lint reports exactly the style violations that are present.
//
// Domain: clean-by-construction styled workspaces (protogen StyledConfig) × rule options × zero or
// one planting operator (28 operators covering the builtin rules) at a drawn applicable site × every
// category and config version + single-rule configurations.
//
// Oracle: clean => no annotation in any category; planted => the annotations of the planted rule are
// exactly one per expected site (file + a renderer-recorded anchor of the element), present exactly
// in the categories/versions the documented tables put the rule in, and no rule outside the
// operator's documented side-effect list fires.
package c05

import (
	"context"
	"fmt"
	"sort"
	"strings"
	"testing"

	"github.com/bufbuild/bufverif/internal/bufx"
	"github.com/bufbuild/bufverif/internal/checkx"
	"github.com/bufbuild/bufverif/internal/evid"
	"github.com/bufbuild/bufverif/internal/protogen"
	"pgregory.net/rapid"
)

func TestMain(m *testing.M) { evid.Main(m, "C05") }

type Mod struct {
	Dir  string `json:"dir"`
	Name string `json:"name,omitempty"`
}

// Site is an expected annotation site.
type Site struct {
	ID      string         `json:"id"`
	File    string         `json:"file"`
	Anchors []protogen.Pos `json:"anchors,omitempty"` // empty = file-level (any position)
}

// Case is the replayable input.
type Case struct {
	Mods    []Mod                        `json:"modules"`
	Files   map[string]map[string]string `json:"files"`
	Plant   *protogen.Plant              `json:"plant,omitempty"`
	Sites   []Site                       `json:"sites,omitempty"`
	Options checkx.LintOptions           `json:"options"`
}

func mods(ws *protogen.Workspace) []Mod {
	var out []Mod
	for _, m := range ws.Modules {
		out = append(out, Mod{m.Dir, m.Name})
	}
	return out
}

func wsOf(ms []Mod) *protogen.Workspace {
	ws := &protogen.Workspace{}
	for _, m := range ms {
		ws.Modules = append(ws.Modules, &protogen.Module{Dir: m.Dir, Name: m.Name})
	}
	return ws
}

func anchors(p protogen.ElemPos) []protogen.Pos {
	var out []protogen.Pos
	for _, a := range []protogen.Pos{p.Start, p.Name, p.Type, p.Out, p.Num} {
		if a.Line > 0 {
			out = append(out, a)
		}
	}
	return out
}

// applyOptions rewrites a clean workspace so that it is clean under the drawn rule options.
func applyOptions(ws *protogen.Workspace, o checkx.LintOptions) {
	for _, f := range ws.AllFiles() {
		if o.EnumZeroValueSuffix != "" {
			f.WalkEnums(func(er protogen.EnumRef) {
				for _, v := range er.Enum.Values {
					if v.Number == 0 {
						v.Name = strings.TrimSuffix(v.Name, "_UNSPECIFIED") + o.EnumZeroValueSuffix
					}
				}
			})
		}
		if o.ServiceSuffix != "" {
			for _, s := range f.Services {
				s.Name = strings.TrimSuffix(s.Name, "Service") + o.ServiceSuffix
			}
		}
	}
}

func genOptions(t *rapid.T) checkx.LintOptions {
	var o checkx.LintOptions
	if rapid.IntRange(0, 3).Draw(t, "zerosuffix") == 0 {
		o.EnumZeroValueSuffix = []string{"_NONE", "_UNKNOWN", "_ZERO_VALUE"}[rapid.IntRange(0, 2).Draw(t, "zs")]
	}
	if rapid.IntRange(0, 3).Draw(t, "svcsuffix") == 0 {
		o.ServiceSuffix = []string{"API", "Endpoint"}[rapid.IntRange(0, 1).Draw(t, "ss")]
	}
	return o
}

func genCase(t *rapid.T, planted bool) *Case {
	cfg := protogen.StyledConfig()
	ws := protogen.GenWorkspace(t, cfg)
	var o checkx.LintOptions
	c := &Case{}
	switch {
	case !planted:
		o = genOptions(t)
		applyOptions(ws, o)
	case rapid.IntRange(0, 11).Draw(t, "optionplant") == 0:
		// a custom suffix option makes every default-suffixed element a violation
		if rapid.Bool().Draw(t, "whichoption") {
			o.EnumZeroValueSuffix = "_NONE"
			p := &protogen.Plant{Op: "custom-zero-suffix-option", Rule: "ENUM_ZERO_VALUE_SUFFIX", Desc: "enum_zero_value_suffix=_NONE over _UNSPECIFIED values"}
			for _, f := range ws.AllFiles() {
				f.WalkEnums(func(er protogen.EnumRef) {
					for _, v := range er.Enum.Values {
						if v.Number == 0 {
							p.Sites = append(p.Sites, v.ID)
						}
					}
				})
			}
			if len(p.Sites) == 0 {
				t.Skip("no enum")
			}
			c.Plant = p
		} else {
			o.ServiceSuffix = "API"
			p := &protogen.Plant{Op: "custom-service-suffix-option", Rule: "SERVICE_SUFFIX", Desc: "service_suffix=API over ...Service names"}
			for _, f := range ws.AllFiles() {
				for _, s := range f.Services {
					p.Sites = append(p.Sites, s.ID)
				}
			}
			if len(p.Sites) == 0 {
				t.Skip("no service")
			}
			c.Plant = p
		}
	default:
		ed := protogen.NewEditor(t)
		p := ed.ApplyPlant(ws)
		if p == nil {
			t.Skip("no planting operator applicable")
		}
		if p.Op == "rpc-empty-request" || p.Op == "rpc-empty-response" {
			// each of the two rpc_allow_google_protobuf_empty_* options switches off exactly its own side
			o.RPCAllowEmptyReq = rapid.Bool().Draw(t, "allowemptyreq")
			o.RPCAllowEmptyResp = rapid.Bool().Draw(t, "allowemptyresp")
			if (p.Op == "rpc-empty-request" && o.RPCAllowEmptyReq) || (p.Op == "rpc-empty-response" && o.RPCAllowEmptyResp) {
				p.Op, p.Sites = p.Op+"-allowed", nil
			}
		}
		if p.Op == "rpc-same-request-response" && rapid.Bool().Draw(t, "allowsame") {
			// rpc_allow_same_request_response switches exactly this violation off
			o.RPCAllowSame = true
			p.Op, p.Sites = "rpc-same-request-response-allowed", nil
		}
		c.Plant = p
	}
	c.Options = o
	rw := ws.Render()
	c.Mods, c.Files = mods(ws), rw.ByModule
	if c.Plant != nil {
		for _, id := range c.Plant.Sites {
			s := Site{ID: id, File: rw.FileOf[id]}
			isFile := false
			for _, f := range ws.AllFiles() {
				if f.ID == id {
					isFile = true
					s.File = f.Path
				}
			}
			if !isFile {
				p, ok := rw.Pos[id]
				if !ok {
					t.Fatalf("harness: planted site %s has no recorded position (op %s)", id, c.Plant.Op)
				}
				s.Anchors = anchors(p)
			}
			c.Sites = append(c.Sites, s)
		}
	}
	return c
}

func matchSites(c *Case, rule string, anns []bufx.Ann) (string, string) {
	var mine []bufx.Ann
	for _, a := range anns {
		if a.Type == rule {
			mine = append(mine, a)
		}
	}
	used := make([]bool, len(mine))
	for _, s := range c.Sites {
		found := -1
		for i, a := range mine {
			if used[i] || a.Path != s.File {
				continue
			}
			if len(s.Anchors) == 0 {
				found = i
				break
			}
			for _, an := range s.Anchors {
				if an.Line == a.Line && an.Col == a.Col {
					found = i
				}
			}
			if found >= 0 {
				break
			}
		}
		if found < 0 {
			key := "missing"
			for _, a := range mine {
				if a.Path == s.File {
					key = "wrong-position"
				}
			}
			return key, fmt.Sprintf("no %s annotation at site %s (file %s, anchors %v); %s annotations: %v", rule, s.ID, s.File, s.Anchors, rule, mine)
		}
		used[found] = true
	}
	for i, a := range mine {
		if !used[i] {
			return "extra-for-planted-rule", fmt.Sprintf("%s also reported at %s, which is not a planted site (sites %v)", rule, a, c.Sites)
		}
	}
	return "", ""
}

func alsoOK(p *protogen.Plant, typ string) bool {
	if typ == p.Rule {
		return true
	}
	for _, a := range p.Also {
		if a == typ {
			return true
		}
	}
	return false
}

func verOK(p *protogen.Plant, ver string) bool {
	if len(p.Versions) == 0 {
		return true
	}
	for _, v := range p.Versions {
		if v == ver {
			return true
		}
	}
	return false
}

func run(ctx context.Context, t interface {
	Fatalf(string, ...any)
	Helper()
}, r *evid.Recorder, c *Case) {
	img, err := bufx.BuildImage(ctx, wsOf(c.Mods), c.Files)
	if err != nil {
		what := "clean"
		if c.Plant != nil {
			what = c.Plant.Op + ": " + c.Plant.Desc
		}
		t.Fatalf("harness: workspace (%s) does not build: %v", what, err)
	}
	if c.Options.EnumZeroValueSuffix != "" || c.Options.ServiceSuffix != "" {
		r.Class("custom-rule-options")
	}
	for _, ver := range protogen.Versions {
		for _, cat := range protogen.LintCategories {
			cfg, err := checkx.LintConfig(ver, []string{cat}, nil, nil, nil, c.Options)
			if err != nil {
				t.Fatalf("harness: %v", err)
			}
			anns, err := checkx.Lint(ctx, cfg, img)
			r.Eval()
			if err != nil {
				r.Fail(t, "lint-error", fmt.Sprintf("Lint(%s,%s) failed: %v", cat, ver, err), c)
				return
			}
			if c.Plant == nil {
				if len(anns) > 0 {
					r.Fail(t, "false-positive:"+anns[0].Type, fmt.Sprintf("[%s/%s] clean-by-construction workspace reports %v", cat, ver, anns), c)
					return
				}
				continue
			}
			p := c.Plant
			expected := verOK(p, ver) && protogen.LintRuleExists(p.Rule, ver) && protogen.LintRuleInCategory(p.Rule, cat, ver)
			if expected {
				if key, msg := matchSites(c, p.Rule, anns); key != "" {
					r.Fail(t, key+":"+p.Rule, fmt.Sprintf("[%s/%s] planted %s (%s): %s", cat, ver, p.Op, p.Desc, msg), c)
					return
				}
			}
			for _, a := range anns {
				if a.Type == p.Rule && !expected {
					r.Fail(t, "rule-outside-its-category:"+p.Rule, fmt.Sprintf("[%s/%s] %s is not documented in this category/version but reported %s", cat, ver, p.Rule, a), c)
					return
				}
				if !alsoOK(p, a.Type) {
					r.Fail(t, "unrelated-rule-fired:"+a.Type, fmt.Sprintf("[%s/%s] planted %s (%s) but unrelated rule fired: %s", cat, ver, p.Op, p.Desc, a), c)
					return
				}
			}
		}
		if c.Plant != nil && verOK(c.Plant, ver) && protogen.LintRuleExists(c.Plant.Rule, ver) {
			cfg, err := checkx.LintConfig(ver, []string{c.Plant.Rule}, nil, nil, nil, c.Options)
			if err != nil {
				r.Fail(t, "rule-unknown:"+c.Plant.Rule, fmt.Sprintf("documented rule %s rejected in %s: %v", c.Plant.Rule, ver, err), c)
				return
			}
			anns, err := checkx.Lint(ctx, cfg, img)
			r.Eval()
			if err != nil {
				r.Fail(t, "lint-error", fmt.Sprintf("Lint(use=%s,%s) failed: %v", c.Plant.Rule, ver, err), c)
				return
			}
			if key, msg := matchSites(c, c.Plant.Rule, anns); key != "" {
				r.Fail(t, key+":"+c.Plant.Rule, fmt.Sprintf("[use=%s/%s] planted %s (%s): %s", c.Plant.Rule, ver, c.Plant.Op, c.Plant.Desc, msg), c)
				return
			}
			for _, a := range anns {
				if a.Type != c.Plant.Rule {
					r.Fail(t, "single-rule-config-reports-other-rule", fmt.Sprintf("use=[%s] reported %s", c.Plant.Rule, a), c)
					return
				}
			}
		}
	}
	if c.Plant == nil {
		r.Class("clean")
		nfiles := 0
		for _, fs := range c.Files {
			nfiles += len(fs)
		}
		if nfiles >= 2 {
			r.NonTrivial(fmt.Sprintf("%v|%v", c.Files, c.Options))
		}
		return
	}
	r.Class("op:" + c.Plant.Op)
	r.Class("rule:" + c.Plant.Rule)
	paths := []string{}
	for _, fs := range c.Files {
		for p := range fs {
			paths = append(paths, p)
		}
	}
	sort.Strings(paths)
	nested := strings.Contains(c.Plant.Desc, "depth 1") || strings.Contains(c.Plant.Desc, "depth 2")
	if nested || (len(c.Sites) > 0 && len(paths) > 0 && c.Sites[0].File != paths[0]) {
		r.NonTrivial(fmt.Sprintf("%s|%s|%v", c.Plant.Op, c.Plant.Desc, c.Files))
	}
	r.Sample(map[string]any{"op": c.Plant.Op, "rule": c.Plant.Rule, "desc": c.Plant.Desc, "sites": c.Sites})
}

func TestClean(t *testing.T) {
	r := evid.R()
	ctx := context.Background()
	r.Check(t, r.Scale(250, 2400), 1, func(t *rapid.T) {
		run(ctx, t, r, genCase(t, false))
	})
}

func TestPlanted(t *testing.T) {
	r := evid.R()
	ctx := context.Background()
	r.Check(t, r.Scale(700, 9000), 2, func(t *rapid.T) {
		run(ctx, t, r, genCase(t, true))
	})
}

func TestReplay(t *testing.T) {
	if strings.Contains(evid.ReplayTest(), "TestCLIBooleanOptions") {
		var fc FlagCase
		ok, err := evid.ReplayCase(&fc)
		if !ok {
			t.Skip("no VERIF_REPLAY")
		}
		if err != nil {
			t.Fatal(err)
		}
		r := evid.R()
		defer r.Begin(t)()
		runFlagCase(context.Background(), t, r, &fc)
		return
	}
	if strings.Contains(evid.ReplayTest(), "TestPackageOptionConsistency") {
		var pc PkgOptCase
		ok, err := evid.ReplayCase(&pc)
		if !ok {
			t.Skip("no VERIF_REPLAY")
		}
		if err != nil {
			t.Fatal(err)
		}
		r := evid.R()
		defer r.Begin(t)()
		runPkgOpts(context.Background(), t, r, &pc)
		return
	}
	if strings.Contains(evid.ReplayTest(), "TestCLIConfiguredOptions") {
		var cc CLICase
		ok, err := evid.ReplayCase(&cc)
		if !ok {
			t.Skip("no VERIF_REPLAY")
		}
		if err != nil {
			t.Fatal(err)
		}
		r := evid.R()
		defer r.Begin(t)()
		runCLI(context.Background(), t, r, &cc)
		return
	}
	var c Case
	ok, err := evid.ReplayCase(&c)
	if !ok {
		t.Skip("no VERIF_REPLAY")
	}
	if err != nil {
		t.Fatal(err)
	}
	r := evid.R()
	defer r.Begin(t)()
	run(context.Background(), t, r, &c)
}
