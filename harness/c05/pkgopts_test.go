package c05

// Package-wide option consistency (PACKAGE_SAME_GO_PACKAGE, ..._JAVA_PACKAGE, ..._JAVA_MULTIPLE_FILES,
// ..._CSHARP_NAMESPACE, ..._PHP_NAMESPACE, ..._RUBY_PACKAGE, ..._SWIFT_PREFIX): packages spread over 2-4 files,
// every file carrying each option unset, with one value, or with another value. The reference says a rule
// fires, once per file of the package, exactly when the files of the package do not all agree (unset and an
// explicit value - also an explicit `false` - do not agree).

import (
	"context"
	"fmt"
	"sort"
	"strings"
	"testing"

	"github.com/bufbuild/bufverif/internal/bufx"
	"github.com/bufbuild/bufverif/internal/checkx"
	"github.com/bufbuild/bufverif/internal/evid"
	"pgregory.net/rapid"
)

type pkgOpt struct {
	name, rule string
	vals       [2]string
}

var pkgOpts = []pkgOpt{
	{"go_package", "PACKAGE_SAME_GO_PACKAGE", [2]string{`"example.com/gen/a"`, `"example.com/gen/b"`}},
	{"java_package", "PACKAGE_SAME_JAVA_PACKAGE", [2]string{`"com.example.a"`, `"com.example.b"`}},
	{"java_multiple_files", "PACKAGE_SAME_JAVA_MULTIPLE_FILES", [2]string{"true", "false"}},
	{"csharp_namespace", "PACKAGE_SAME_CSHARP_NAMESPACE", [2]string{`"Example.A"`, `"Example.B"`}},
	{"php_namespace", "PACKAGE_SAME_PHP_NAMESPACE", [2]string{`"Example\\A"`, `"Example\\B"`}},
	{"ruby_package", "PACKAGE_SAME_RUBY_PACKAGE", [2]string{`"Example::A"`, `"Example::B"`}},
	{"swift_prefix", "PACKAGE_SAME_SWIFT_PREFIX", [2]string{`"EXA"`, `"EXB"`}},
}

// PkgOptCase is the replayable input of this test.
type PkgOptCase struct {
	Files    map[string]string `json:"files"`
	Expected []string          `json:"expected"` // "path|RULE"
	Desc     []string          `json:"desc"`
}

func genPkgOptCase(t *rapid.T) *PkgOptCase {
	c := &PkgOptCase{Files: map[string]string{}}
	nPkg := rapid.IntRange(1, 2).Draw(t, "packages")
	for p := 0; p < nPkg; p++ {
		pkg := []string{"alpha.v1", "beta.v1"}[p]
		dir := strings.ReplaceAll(pkg, ".", "/")
		nFiles := rapid.IntRange(2, 4).Draw(t, "files")
		// state[o][f]: 0 unset, 1 first value, 2 second value
		state := make([][]int, len(pkgOpts))
		for o := range pkgOpts {
			state[o] = make([]int, nFiles)
			switch rapid.IntRange(0, 3).Draw(t, "mode") {
			case 0: // all unset
			case 1: // all the same value
				v := 1 + rapid.IntRange(0, 1).Draw(t, "value")
				for f := range state[o] {
					state[o][f] = v
				}
			default: // per file
				for f := range state[o] {
					if rapid.Bool().Draw(t, "set") {
						state[o][f] = 1
						if rapid.Bool().Draw(t, "second") {
							state[o][f] = 2
						}
					}
				}
			}
		}
		var paths []string
		for f := 0; f < nFiles; f++ {
			path := fmt.Sprintf("%s/file%d_%c.proto", dir, f, 'a'+p)
			paths = append(paths, path)
			var b strings.Builder
			b.WriteString("syntax = \"proto3\";\n\npackage " + pkg + ";\n\n")
			for o, po := range pkgOpts {
				if s := state[o][f]; s != 0 {
					fmt.Fprintf(&b, "option %s = %s;\n", po.name, po.vals[s-1])
				}
			}
			fmt.Fprintf(&b, "\nmessage Holder%d%c {}\n", f, 'A'+p)
			c.Files[path] = b.String()
		}
		for o, po := range pkgOpts {
			seen := map[int]bool{}
			for _, s := range state[o] {
				seen[s] = true
			}
			if len(seen) > 1 {
				for _, path := range paths {
					c.Expected = append(c.Expected, path+"|"+po.rule)
				}
				c.Desc = append(c.Desc, fmt.Sprintf("%s %s %v", pkg, po.name, state[o]))
			}
		}
	}
	sort.Strings(c.Expected)
	return c
}

func runPkgOpts(ctx context.Context, t interface {
	Fatalf(string, ...any)
	Helper()
}, r *evid.Recorder, c *PkgOptCase) {
	ms := []Mod{{Dir: "m"}}
	img, err := bufx.BuildImage(ctx, wsOf(ms), map[string]map[string]string{"m": c.Files})
	if err != nil {
		t.Fatalf("harness: generated package files do not build: %v", err)
	}
	for _, ver := range []string{"v1beta1", "v1", "v2"} {
		cfg, err := checkx.LintConfig(ver, []string{"BASIC"}, nil, nil, nil, checkx.LintOptions{})
		if err != nil {
			t.Fatalf("harness: %v", err)
		}
		anns, err := checkx.Lint(ctx, cfg, img)
		r.Eval()
		if err != nil {
			r.Fail(t, "lint-error", fmt.Sprintf("Lint(BASIC,%s) failed: %v", ver, err), c)
			return
		}
		got := map[string]bool{}
		for _, a := range anns {
			if strings.HasPrefix(a.Type, "PACKAGE_SAME_") && a.Type != "PACKAGE_SAME_DIRECTORY" {
				got[a.Path+"|"+a.Type] = true
			}
		}
		want := map[string]bool{}
		for _, e := range c.Expected {
			want[e] = true
		}
		for _, e := range c.Expected {
			if !got[e] {
				rule := e[strings.Index(e, "|")+1:]
				r.Fail(t, "missing:"+rule, fmt.Sprintf("[BASIC/%s] files of a package disagree on an option (%v) but %s is not reported; got %v", ver, c.Desc, e, sortedKeys(got)), c)
				return
			}
		}
		for g := range got {
			if !want[g] {
				rule := g[strings.Index(g, "|")+1:]
				r.Fail(t, "false-positive:"+rule, fmt.Sprintf("[BASIC/%s] %s reported although the files of the package agree (%v)", ver, g, c.Desc), c)
				return
			}
		}
	}
	if len(c.Expected) > 0 {
		r.NonTrivial(fmt.Sprintf("%v", c.Files))
		r.Class("pkgopts:disagreeing-options")
	} else {
		r.Class("pkgopts:all-agree")
	}
	for _, d := range c.Desc {
		if strings.Contains(d, "0") {
			r.Class("pkgopts:unset-vs-set")
			break
		}
	}
	r.Sample(map[string]any{"pkgopts": c.Desc})
}

func sortedKeys(m map[string]bool) []string {
	var out []string
	for k := range m {
		out = append(out, k)
	}
	sort.Strings(out)
	return out
}

func TestPackageOptionConsistency(t *testing.T) {
	r := evid.R()
	ctx := context.Background()
	r.Check(t, r.Scale(200, 6000), 3, func(t *rapid.T) {
		runPkgOpts(ctx, t, r, genPkgOptCase(t))
	})
}
