// C16, migration part — "Migrating a v1 or v1beta1 workspace to v2 preserves, for every module, the
// set of files built, their descriptors, and the lint and breaking results."
//
// Oracle (metamorphic, before vs after): a generated v1/v1beta1 workspace W and a fixed mutated copy M
// (same configuration files, sources with extra/changed elements) are written to disk. Through the same
// controller entry point the CLI uses for `buf build|lint|breaking <input>`
// (bufctl.Controller.GetTargetImageWithConfigsAndCheckClient, then bufcheck Client.Lint / Client.Breaking
// with the options lint.go / breaking.go pass, images paired by index like `buf breaking` does) the
// per-module images, lint annotations and breaking annotations against M are observed for the workspace
// directory and for one module directory. Then W is migrated in place with bufmigrate.MigrateAll on an
// OS bucket rooted at W (what `buf config migrate` without flags does in its working directory) and the
// same observations are taken again. M is never migrated. Because migration is in place every path is
// identical on both sides; nothing is normalised. Modules are addressed by directory (the non-import
// files of an image lie in exactly one generated module directory); the N modules a v1beta1 module with
// N roots is split into are compared as a union.
//
// Compared: per module the set of image files with their import flag, every FileDescriptorProto
// (proto.Equal, source info included), the set of lint annotations {type, path, external path, start/end
// line/column, message}; per input and module the set of breaking annotations against M.
//
// Not asserted (and why): the text of the migrated buf.yaml (the statement is about behaviour); module
// names (a named multi-root v1beta1 module becomes unnamed modules, documented by the migrator);
// breaking results of inputs that contain a multi-root v1beta1 module (the un-migrated copy then has a
// different number of modules and `buf breaking` refuses the pair - a documented consequence of the
// split); module-wide lint rules that span the roots of one v1beta1 module (the generator does not share
// a type or a directory across roots of one module); buf.lock / remote deps (none are generated).
//
// One bufcheck client is shared by all observations of a process (rule tables are static without
// plugins); a fresh client per call re-validates the whole rule list and would triple the cost.
package c16

import (
	"bytes"
	"context"
	"encoding/json"
	"errors"
	"fmt"
	"io"
	"log/slog"
	"os"
	"path/filepath"
	"sort"
	"strings"
	"testing"

	"github.com/bufbuild/buf/private/buf/bufcli"
	"github.com/bufbuild/buf/private/buf/bufctl"
	"github.com/bufbuild/buf/private/buf/bufmigrate"
	"github.com/bufbuild/buf/private/bufpkg/bufanalysis"
	"github.com/bufbuild/buf/private/bufpkg/bufcheck"
	"github.com/bufbuild/buf/private/bufpkg/bufconfig"
	"github.com/bufbuild/buf/private/bufpkg/bufimage"
	"github.com/bufbuild/buf/private/bufpkg/bufplugin"
	"github.com/bufbuild/buf/private/pkg/app"
	"github.com/bufbuild/buf/private/pkg/app/appext"
	"github.com/bufbuild/buf/private/pkg/storage/storageos"
	"github.com/bufbuild/buf/private/pkg/wasm"
	"github.com/bufbuild/bufverif/internal/evid"
	"google.golang.org/protobuf/proto"
	"google.golang.org/protobuf/types/descriptorpb"
	"pgregory.net/rapid"
)

// migUnknownID is the error text of bufcheck for an id that does not exist in the configuration's version.
const migUnknownID = "is not a known rule or category ID"

// migEmptyRules is bufcheck's system error for a configuration whose use minus except is empty.
const migEmptyRules = "resultRules was empty"

// migUnknownIDClass classifies an "unknown id" failure after/during migration by the id it names and
// the input shape: "v1beta1-only-id" (the id exists only in the v1beta1 tables; for a failing migration
// additionally: a v1beta1 buf.yaml of the case names it explicitly), "deprecated-id" (deprecated in
// v1/v1beta1, gone in v2) or "unknown-id"; "" if the text is not such a failure.
func (c *migCase) migUnknownIDClass(text string, needNamed bool) string {
	i := strings.Index(text, migUnknownID)
	if i < 0 {
		return ""
	}
	head := strings.TrimSpace(text[:i])
	if !strings.HasSuffix(head, `"`) {
		return "unknown-id"
	}
	head = head[:len(head)-1]
	j := strings.LastIndex(head, `"`)
	if j < 0 {
		return "unknown-id"
	}
	id := head[j+1:]
	for _, kind := range []string{"lint", "breaking"} {
		if migTables["v1"][kind].isDepr[id] || migTables["v1beta1"][kind].isDepr[id] {
			return "deprecated-id"
		}
	}
	for _, kind := range []string{"lint", "breaking"} {
		if migTables["v1beta1"][kind].has(id) && !migTables["v1"][kind].has(id) {
			if needNamed && !c.namesID(id) {
				return "unknown-id"
			}
			return "v1beta1-only-id"
		}
	}
	return "unknown-id"
}

var migLogger = slog.New(slog.NewTextHandler(io.Discard, &slog.HandlerOptions{Level: slog.LevelError + 10}))

// ---------------------------------------------------------------------------------------------
// case (replayable)

type migCaseMod struct {
	Dir       string   `json:"dir"`
	Version   string   `json:"version"`
	MultiRoot bool     `json:"multi_root,omitempty"`
	NoBufYAML bool     `json:"no_buf_yaml,omitempty"`
	Name      string   `json:"name,omitempty"`
	Deps      []string `json:"deps,omitempty"` // declared in the module's buf.yaml
}

// expectedDeps is the reference rule for the dependencies of the migrated workspace: the union of
// the declared dependencies of all modules minus the modules of the workspace itself; a name that
// is declared with a ref keeps it.
func (c *migCase) expectedDeps() []string {
	local := map[string]bool{}
	for _, m := range c.Modules {
		if m.Name != "" {
			local[m.Name] = true
		}
	}
	refOf := map[string]string{}
	for _, m := range c.Modules {
		for _, d := range m.Deps {
			name, ref := d, ""
			if i := strings.LastIndex(d, ":"); i > strings.LastIndex(d, "/") {
				name, ref = d[:i], d[i+1:]
			}
			if local[name] {
				continue
			}
			if cur, ok := refOf[name]; !ok || cur == "" {
				refOf[name] = ref
			}
		}
	}
	out := []string{}
	for name, ref := range refOf {
		if ref != "" {
			name += ":" + ref
		}
		out = append(out, name)
	}
	sort.Strings(out)
	return out
}

type migCase struct {
	Kind    string            `json:"kind"`   // "migration"
	Layout  string            `json:"layout"` // work | root | subdir
	Modules []migCaseMod      `json:"modules"`
	Inputs  []string          `json:"inputs"`  // directories given to build/lint/breaking (workspace-relative)
	Files   map[string]string `json:"files"`   // workspace tree before migration
	Against map[string]string `json:"against"` // fixed mutated copy (never migrated)
}

func migCaseOf(ws *migWS) *migCase {
	c := &migCase{Kind: "migration", Layout: ws.Layout, Files: ws.migRender(false), Against: ws.migRender(true)}
	for _, m := range ws.Modules {
		c.Modules = append(c.Modules, migCaseMod{Dir: m.Dir, Version: m.Version, MultiRoot: len(m.Roots) > 1, NoBufYAML: m.NoBufYAML, Name: m.Name, Deps: m.Deps})
	}
	switch ws.Layout {
	case "work":
		// `buf lint <workspace>` and `buf lint <workspace>/<module dir>` for one drawn module
		c.Inputs = []string{".", ws.Modules[ws.InputMod].Dir}
	case "root":
		c.Inputs = []string{"."}
	default:
		// no buf.work.yaml: before migration only the module directory itself is a meaningful input
		c.Inputs = []string{ws.Modules[0].Dir}
	}
	return c
}

// multiRootIn says whether the input targets a module that migration splits into several modules.
func (c *migCase) multiRootIn(input string) bool {
	for _, m := range c.Modules {
		if m.MultiRoot && (input == "." || input == m.Dir) {
			return true
		}
	}
	return false
}

// checksDisabled reports whether the un-migrated buf.yaml of the module switches lint / breaking off
// (an ignore path naming the module itself).
func (c *migCase) checksDisabled(mod string) (lint, breaking bool) {
	text, ok := c.Files[migJoin(mod, "buf.yaml")]
	if !ok {
		return false, false
	}
	f, err := bufconfig.ReadBufYAMLFile(strings.NewReader(text), "buf.yaml")
	if err != nil || len(f.ModuleConfigs()) != 1 {
		return false, false
	}
	mc := f.ModuleConfigs()[0]
	return mc.LintConfig().Disabled(), mc.BreakingConfig().Disabled()
}

// categoryDrift reports whether every differing annotation of a module is explained by an ignore_only
// entry of its un-migrated buf.yaml whose key is a category that contains the annotation's rule in
// exactly one of the two versions (the old one and v2): migration copies such keys verbatim.
func (c *migCase) categoryDrift(mod, kind string, onlyBefore, onlyAfter []string) bool {
	text, ok := c.Files[migJoin(mod, "buf.yaml")]
	if !ok {
		return false
	}
	f, err := bufconfig.ReadBufYAMLFile(strings.NewReader(text), "buf.yaml")
	if err != nil || len(f.ModuleConfigs()) != 1 {
		return false
	}
	var cfg bufconfig.CheckConfig = f.ModuleConfigs()[0].LintConfig()
	if kind == "breaking" {
		cfg = f.ModuleConfigs()[0].BreakingConfig()
	}
	if cfg.Disabled() {
		return false
	}
	oldTable, newTable := migTables[f.FileVersion().String()][kind], migTables["v2"][kind]
	if oldTable == nil {
		return false
	}
	inCat := func(tb *migRuleTable, cat, rule string) bool {
		for _, r := range tb.catRules[cat] {
			if r == rule {
				return true
			}
		}
		return false
	}
	explained := func(texts []string, wantOld bool) bool {
		for _, text := range texts {
			a, ok := migAnnByText[text]
			if !ok {
				return false
			}
			found := false
			for cat, paths := range cfg.IgnoreIDOrCategoryToPaths() {
				if inCat(oldTable, cat, a.Type) != wantOld || inCat(newTable, cat, a.Type) == wantOld {
					continue
				}
				for _, p := range paths {
					if a.Path == p || strings.HasPrefix(a.Path, p+"/") {
						found = true
					}
				}
			}
			if !found {
				return false
			}
		}
		return true
	}
	// only after: ignored through the category before, no longer a member in v2; only before: the reverse.
	return len(onlyBefore)+len(onlyAfter) > 0 && explained(onlyAfter, true) && explained(onlyBefore, false)
}

// migLostToExceptCategory reports whether every differing annotation is an annotation that disappeared
// and whose rule the migrated buf.yaml names in `use` of the module while an `except` category of the
// same section contains that rule in v2 (except wins over use): the migrator re-adds rules that the
// v2 categories no longer cover through `use`, which has no effect under such an `except`.
func migLostToExceptCategory(migratedYAML, mod, kind string, onlyBefore, onlyAfter []string) bool {
	if len(onlyAfter) > 0 || len(onlyBefore) == 0 {
		return false
	}
	f, err := bufconfig.ReadBufYAMLFile(strings.NewReader(migratedYAML), "buf.yaml")
	if err != nil {
		return false
	}
	v2 := migTables["v2"][kind]
	for _, text := range onlyBefore {
		a, ok := migAnnByText[text]
		if !ok {
			return false
		}
		found := false
		for _, mc := range f.ModuleConfigs() {
			if !(mod == "." || mc.DirPath() == mod || strings.HasPrefix(mc.DirPath(), mod+"/")) {
				continue
			}
			var cfg bufconfig.CheckConfig = mc.LintConfig()
			if kind == "breaking" {
				cfg = mc.BreakingConfig()
			}
			if cfg.Disabled() {
				continue
			}
			inUse := false
			for _, id := range cfg.UseIDsAndCategories() {
				if id == a.Type {
					inUse = true
				}
			}
			if !inUse {
				continue
			}
			for _, cat := range cfg.ExceptIDsAndCategories() {
				for _, r := range v2.catRules[cat] {
					if r == a.Type {
						found = true
					}
				}
			}
		}
		if !found {
			return false
		}
	}
	return true
}

// noBufYAML: input shape "the module directory has no buf.yaml" (read from the case's file tree).
func (c *migCase) noBufYAML(mod string) bool {
	_, ok := c.Files[migJoin(mod, "buf.yaml")]
	return !ok
}

// migCheckConfigs returns the lint and breaking configuration of every un-migrated buf.yaml of the case.
func (c *migCase) migCheckConfigs() (version []string, cfgs []bufconfig.CheckConfig) {
	for _, m := range c.Modules {
		text, ok := c.Files[migJoin(m.Dir, "buf.yaml")]
		if !ok {
			continue
		}
		f, err := bufconfig.ReadBufYAMLFile(strings.NewReader(text), "buf.yaml")
		if err != nil || len(f.ModuleConfigs()) != 1 {
			continue
		}
		mc := f.ModuleConfigs()[0]
		version = append(version, f.FileVersion().String(), f.FileVersion().String())
		cfgs = append(cfgs, mc.LintConfig(), mc.BreakingConfig())
	}
	return version, cfgs
}

// namesID: input shape "a v1beta1 configuration names the id explicitly" (use, except or ignore_only).
func (c *migCase) namesID(id string) bool {
	versions, cfgs := c.migCheckConfigs()
	for i, cfg := range cfgs {
		if versions[i] != "v1beta1" || cfg.Disabled() {
			continue
		}
		ids := append(cfg.UseIDsAndCategories(), cfg.ExceptIDsAndCategories()...)
		for k := range cfg.IgnoreIDOrCategoryToPaths() {
			ids = append(ids, k)
		}
		for _, x := range ids {
			if x == id {
				return true
			}
		}
	}
	return false
}

// exceptsCategory: input shape "a v1 / v1beta1 configuration excepts a whole category" - the shape
// whose translation can leave no rule (or silently drop one), because the members of a category differ
// between the old version and v2 (e.g. FILE_SAME_PACKAGE and PACKAGE/WIRE/WIRE_JSON of v1beta1,
// PACKAGE_NO_IMPORT_CYCLE and MINIMAL/BASIC/STANDARD of v1).
func (c *migCase) exceptsCategory() bool {
	versions, cfgs := c.migCheckConfigs()
	for i, cfg := range cfgs {
		if cfg.Disabled() || migTables[versions[i]] == nil {
			continue
		}
		for _, x := range cfg.ExceptIDsAndCategories() {
			for _, kind := range []string{"lint", "breaking"} {
				if _, ok := migTables[versions[i]][kind].catRules[x]; ok {
					return true
				}
			}
		}
	}
	return false
}

func (c *migCase) moduleOf(rel string) string {
	best := "?"
	for _, m := range c.Modules {
		if m.Dir == "." || rel == m.Dir || strings.HasPrefix(rel, m.Dir+"/") {
			if best == "?" || len(m.Dir) > len(best) {
				best = m.Dir
			}
		}
	}
	return best
}

// ---------------------------------------------------------------------------------------------
// environment: one controller per process

type migEnv struct {
	ctl bufctl.Controller
	// checks is one bufcheck client for the whole process: the client the controller hands out is
	// equivalent for workspaces without check plugins, but a fresh one re-lists (and re-validates) the
	// whole rule table on first use, which dominates the cost of a case.
	checks bufcheck.Client
	cont   appext.Container
	stderr *bytes.Buffer
}

func migNewEnv(home string) (*migEnv, error) {
	if err := migLoadTables(); err != nil {
		return nil, err
	}
	stderr := &bytes.Buffer{}
	envMap := map[string]string{"HOME": home, "BUF_CACHE_DIR": filepath.Join(home, "cache"), "PATH": "/nonexistent"}
	base := app.NewContainer(envMap, strings.NewReader(""), io.Discard, stderr, "buf")
	nc, err := appext.NewNameContainer(base, "buf")
	if err != nil {
		return nil, err
	}
	cont := appext.NewContainer(nc, migLogger)
	ctl, err := bufcli.NewController(cont, bufctl.WithFileAnnotationErrorFormat("text"))
	if err != nil {
		return nil, err
	}
	checks, err := bufcheck.NewClient(
		migLogger,
		bufcheck.NewLocalRunnerProvider(wasm.UnimplementedRuntime, bufplugin.NopPluginKeyProvider, bufplugin.NopPluginDataProvider),
		bufcheck.ClientWithStderr(stderr),
	)
	if err != nil {
		return nil, err
	}
	return &migEnv{ctl: ctl, checks: checks, cont: cont, stderr: stderr}, nil
}

// ---------------------------------------------------------------------------------------------
// observation

type migAnn struct {
	Type string `json:"type"`
	Path string `json:"path"`
	Ext  string `json:"ext"`
	SL   int    `json:"sl"`
	SC   int    `json:"sc"`
	EL   int    `json:"el"`
	EC   int    `json:"ec"`
	Msg  string `json:"msg"`
}

func (a migAnn) String() string {
	return fmt.Sprintf("%s:%d:%d-%d:%d:%s:%s [%s]", a.Path, a.SL, a.SC, a.EL, a.EC, a.Type, a.Msg, a.Ext)
}

func migFlatten(root string, err error) ([]migAnn, error) {
	if err == nil {
		return nil, nil
	}
	var fas bufanalysis.FileAnnotationSet
	if !errors.As(err, &fas) {
		return nil, err
	}
	var out []migAnn
	for _, fa := range fas.FileAnnotations() {
		a := migAnn{Type: fa.Type(), SL: fa.StartLine(), SC: fa.StartColumn(), EL: fa.EndLine(), EC: fa.EndColumn(), Msg: fa.Message()}
		if fi := fa.FileInfo(); fi != nil {
			a.Path = fi.Path()
			a.Ext = strings.TrimPrefix(fi.ExternalPath(), root+"/")
		}
		out = append(out, a)
	}
	return out, nil
}

// migAnnByText lets the classifier get back from the canonical text of an annotation to its fields.
var migAnnByText = map[string]migAnn{}

func migAnnSet(as []migAnn) []string {
	set := map[string]bool{}
	for _, a := range as {
		set[a.String()] = true
		migAnnByText[a.String()] = a
	}
	out := make([]string, 0, len(set))
	for s := range set {
		out = append(out, s)
	}
	sort.Strings(out)
	return out
}

type migObs struct {
	Err     string // images could not be produced
	images  []bufctl.ImageWithConfig
	client  bufcheck.Client
	modOf   []string                                                  // image index -> module dir
	files   map[string]map[string]bool                                // module dir -> path -> is import in every image of that module
	descs   map[string]map[string][]*descriptorpb.FileDescriptorProto // module dir -> path -> descriptors seen
	lint    map[string][]string                                       // module dir -> annotation set
	lintErr string
}

// migImages returns the images of an input the way `buf lint|breaking <input>` obtains them.
func (e *migEnv) migImages(ctx context.Context, input string) ([]bufctl.ImageWithConfig, bufcheck.Client, string) {
	e.stderr.Reset()
	iwcs, client, err := e.ctl.GetTargetImageWithConfigsAndCheckClient(ctx, input, wasm.UnimplementedRuntime)
	if err != nil {
		return nil, nil, fmt.Sprintf("%v %s", err, strings.TrimSpace(e.stderr.String()))
	}
	return iwcs, client, ""
}

func migCheckOptions(iwcs []bufctl.ImageWithConfig) []bufconfig.CheckConfig {
	all := make([]bufconfig.CheckConfig, 0, len(iwcs)*2)
	for _, iwc := range iwcs {
		all = append(all, iwc.LintConfig(), iwc.BreakingConfig())
	}
	return all
}

func (e *migEnv) observe(ctx context.Context, c *migCase, root, input string) *migObs {
	o := &migObs{files: map[string]map[string]bool{}, descs: map[string]map[string][]*descriptorpb.FileDescriptorProto{}, lint: map[string][]string{}}
	abs := root
	if input != "." {
		abs = filepath.Join(root, filepath.FromSlash(input))
	}
	o.images, _, o.Err = e.migImages(ctx, abs)
	if o.Err != "" {
		return o
	}
	o.client = e.checks
	all := migCheckOptions(o.images)
	lintAnns := map[string][]migAnn{}
	for _, iwc := range o.images {
		mod := "?"
		for _, f := range iwc.Files() {
			if !f.IsImport() {
				mod = c.moduleOf(strings.TrimPrefix(f.ExternalPath(), root+"/"))
				break
			}
		}
		o.modOf = append(o.modOf, mod)
		if o.files[mod] == nil {
			o.files[mod] = map[string]bool{}
			o.descs[mod] = map[string][]*descriptorpb.FileDescriptorProto{}
		}
		for _, f := range iwc.Files() {
			imp, seen := o.files[mod][f.Path()]
			if !seen {
				imp = true
			}
			o.files[mod][f.Path()] = imp && f.IsImport()
			o.descs[mod][f.Path()] = append(o.descs[mod][f.Path()], f.FileDescriptorProto())
		}
		err := o.client.Lint(ctx, iwc.LintConfig(), iwc, bufcheck.WithPluginConfigs(iwc.PluginConfigs()...), bufcheck.WithRelatedCheckConfigs(all...))
		anns, err := migFlatten(root, err)
		if err != nil {
			o.lintErr = fmt.Sprintf("module %s: %v", mod, err)
			continue
		}
		lintAnns[mod] = append(lintAnns[mod], anns...)
		if _, ok := lintAnns[mod]; !ok {
			lintAnns[mod] = nil
		}
	}
	for mod := range o.files {
		o.lint[mod] = migAnnSet(lintAnns[mod])
	}
	return o
}

// breaking runs what `buf breaking <input> --against <against>` runs: image i against image i; the
// annotations are kept per module of the input image. mismatch is returned when the CLI would refuse
// because of the image count.
func (o *migObs) breaking(ctx context.Context, root string, against []bufctl.ImageWithConfig) (sets map[string][]string, mismatch bool, errText string) {
	if len(o.images) != len(against) {
		return nil, true, fmt.Sprintf("input contained %d images, whereas against contained %d images", len(o.images), len(against))
	}
	all := migCheckOptions(o.images)
	anns := map[string][]migAnn{}
	for i, iwc := range o.images {
		err := o.client.Breaking(ctx, iwc.BreakingConfig(), iwc, bufimage.Image(against[i]), bufcheck.WithPluginConfigs(iwc.PluginConfigs()...), bufcheck.WithRelatedCheckConfigs(all...))
		as, err := migFlatten(root, err)
		if err != nil {
			return nil, false, fmt.Sprintf("image %d (%s): %v", i, o.modOf[i], err)
		}
		anns[o.modOf[i]] = append(anns[o.modOf[i]], as...)
	}
	sets = map[string][]string{}
	for _, mod := range o.modOf {
		sets[mod] = migAnnSet(anns[mod])
	}
	return sets, false, ""
}

// ---------------------------------------------------------------------------------------------
// oracle

func migWriteTree(dir string, files map[string]string) error {
	paths := make([]string, 0, len(files))
	for p := range files {
		paths = append(paths, p)
	}
	sort.Strings(paths)
	for _, p := range paths {
		full := filepath.Join(dir, filepath.FromSlash(p))
		if err := os.MkdirAll(filepath.Dir(full), 0o755); err != nil {
			return err
		}
		if err := os.WriteFile(full, []byte(files[p]), 0o644); err != nil {
			return err
		}
	}
	return nil
}

func migDiffSets(a, b []string) (onlyA, onlyB []string) {
	am := map[string]bool{}
	for _, s := range a {
		am[s] = true
	}
	bm := map[string]bool{}
	for _, s := range b {
		bm[s] = true
		if !am[s] {
			onlyB = append(onlyB, s)
		}
	}
	for _, s := range a {
		if !bm[s] {
			onlyA = append(onlyA, s)
		}
	}
	return
}

func migFileSet(m map[string]bool) []string {
	var out []string
	for p, imp := range m {
		if imp {
			out = append(out, p+" (import)")
		} else {
			out = append(out, p)
		}
	}
	sort.Strings(out)
	return out
}

func migKeys[V any](m map[string]V) []string {
	out := make([]string, 0, len(m))
	for k := range m {
		out = append(out, k)
	}
	sort.Strings(out)
	return out
}

type migStats struct {
	lintAnns, breakingAnns int
	breakingCompared       int
	breakingSkipped        int
	migratedYAML           string
}

// migOracle writes the case to a fresh directory and compares before/after. It returns a classifier
// key and message when the property is falsified ("" otherwise); harness problems are tb.Fatalf.
func migOracle(tb evid.TB, env *migEnv, c *migCase, st *migStats) (string, string) {
	ctx := context.Background()
	migAnnByText = map[string]migAnn{}
	base, err := os.MkdirTemp("", "c16mig")
	if err != nil {
		tb.Fatalf("harness: temp dir: %v", err)
	}
	defer os.RemoveAll(base)
	if resolved, err := filepath.EvalSymlinks(base); err == nil {
		base = resolved
	}
	W, M := filepath.Join(base, "ws"), filepath.Join(base, "against")
	if err := migWriteTree(W, c.Files); err != nil {
		tb.Fatalf("harness: write: %v", err)
	}
	if err := migWriteTree(M, c.Against); err != nil {
		tb.Fatalf("harness: write: %v", err)
	}
	inputs := c.Inputs
	before := map[string]*migObs{}
	beforeBreaking := map[string]map[string][]string{}
	against := map[string][]bufctl.ImageWithConfig{}
	for _, in := range inputs {
		o := env.observe(ctx, c, W, in)
		if o.Err != "" {
			tb.Fatalf("harness: generated workspace does not build before migration (input %q): %s", in, o.Err)
		}
		if o.lintErr != "" {
			tb.Fatalf("harness: lint fails before migration (input %q): %s", in, o.lintErr)
		}
		for _, mod := range o.modOf {
			if mod == "?" {
				tb.Fatalf("harness: image of input %q has no file inside a generated module directory", in)
			}
		}
		before[in] = o
		absM := M
		if in != "." {
			absM = filepath.Join(M, filepath.FromSlash(in))
		}
		ag, _, errText := env.migImages(ctx, absM)
		if errText != "" {
			tb.Fatalf("harness: mutated copy does not build (input %q): %s", in, errText)
		}
		against[in] = ag
		set, mismatch, errText := o.breaking(ctx, W, ag)
		if mismatch || errText != "" {
			tb.Fatalf("harness: breaking fails before migration (input %q): %s", in, errText)
		}
		beforeBreaking[in] = set
		for _, l := range o.lint {
			st.lintAnns += len(l)
		}
		for _, l := range set {
			st.breakingAnns += len(l)
		}
	}

	// migrate in place, the way `buf config migrate` (no flags) does in its working directory
	moduleKeyProvider, err := bufcli.NewModuleKeyProvider(env.cont)
	if err != nil {
		tb.Fatalf("harness: %v", err)
	}
	commitProvider, err := bufcli.NewCommitProvider(env.cont)
	if err != nil {
		tb.Fatalf("harness: %v", err)
	}
	bucket, err := storageos.NewProvider(storageos.ProviderWithSymlinks()).NewReadWriteBucket(W, storageos.ReadWriteBucketWithSymlinksIfSupported())
	if err != nil {
		tb.Fatalf("harness: %v", err)
	}
	migrator := bufmigrate.NewMigrator(migLogger, moduleKeyProvider, commitProvider)
	if err := bufmigrate.MigrateAll(ctx, migrator, bucket, []string{".git", ".github"}); err != nil {
		key := "migrate-failed"
		if cls := c.migUnknownIDClass(err.Error(), true); cls != "" {
			key = "migrate-failed:" + cls
		} else if strings.Contains(err.Error(), migEmptyRules) && c.exceptsCategory() {
			key = "migrate-failed:empty-rule-set"
		}
		return key, fmt.Sprintf("bufmigrate.MigrateAll on a workspace that builds, lints and breaking-checks before migration: %v", err)
	}
	data, err := os.ReadFile(filepath.Join(W, "buf.yaml"))
	if err != nil {
		return "migration:no-v2-buf-yaml", fmt.Sprintf("no buf.yaml at the workspace root after migration: %v", err)
	}
	st.migratedYAML = string(data)
	migrated, err := bufconfig.ReadBufYAMLFile(bytes.NewReader(data), "buf.yaml")
	if err != nil || migrated.FileVersion() != bufconfig.FileVersionV2 {
		return "migration:no-v2-buf-yaml", fmt.Sprintf("buf.yaml at the workspace root after migration is not a readable v2 file (err=%v):\n%s", err, data)
	}
	gotDeps := []string{}
	for _, ref := range migrated.ConfiguredDepModuleRefs() {
		gotDeps = append(gotDeps, ref.String())
	}
	sort.Strings(gotDeps)
	if want := c.expectedDeps(); !migEqualStrings(gotDeps, want) {
		key := "migration:deps-differ"
		if c.onlyExtraDepsOnSplitNamedModules(gotDeps, want) {
			// input shape: a sibling declares a dep on a NAMED v1beta1 module with several roots; the
			// migrator turns that module into unnamed modules (documented) and then no longer recognises
			// the dep as a workspace module
			key = "migration:dep-on-split-multi-root-sibling-kept"
		}
		return key, fmt.Sprintf("deps of the migrated buf.yaml are %q; the declared dependencies of the workspace minus its own modules are %q\nmigrated buf.yaml:\n%s", gotDeps, want, data)
	}
	var left []string
	if _, err := os.Stat(filepath.Join(W, "buf.work.yaml")); err == nil {
		left = append(left, "buf.work.yaml")
	}
	for _, m := range c.Modules {
		if m.Dir == "." {
			continue
		}
		if _, err := os.Stat(filepath.Join(W, filepath.FromSlash(m.Dir), "buf.yaml")); err == nil {
			left = append(left, m.Dir+"/buf.yaml")
		}
	}
	if len(left) > 0 {
		return "migration:old-config-left", fmt.Sprintf("after migration the v1 configuration files %v still exist", left)
	}

	for _, in := range inputs {
		b := before[in]
		a := env.observe(ctx, c, W, in)
		ctxText := fmt.Sprintf("input %q; migrated buf.yaml:\n%s", in, st.migratedYAML)
		if a.Err != "" {
			return "migration:build-fails", fmt.Sprintf("builds before migration, fails after: %s\n%s", a.Err, ctxText)
		}
		// files
		if !migEqualStrings(migKeys(b.files), migKeys(a.files)) {
			return "migration:files-differ", fmt.Sprintf("modules with built files before %v, after %v\n%s", migKeys(b.files), migKeys(a.files), ctxText)
		}
		for _, mod := range migKeys(b.files) {
			bf, af := migFileSet(b.files[mod]), migFileSet(a.files[mod])
			if onlyB, onlyA := migDiffSets(bf, af); len(onlyB)+len(onlyA) > 0 {
				return "migration:files-differ", fmt.Sprintf("module %q: files only before %v, only after %v\n%s", mod, onlyB, onlyA, ctxText)
			}
			for _, p := range migKeys(b.descs[mod]) {
				ref := b.descs[mod][p][0]
				for _, d := range a.descs[mod][p] {
					if !proto.Equal(ref, d) {
						return "migration:descriptor-differs", fmt.Sprintf("module %q file %q: FileDescriptorProto differs after migration\n%s", mod, p, ctxText)
					}
				}
			}
		}
		// lint
		if a.lintErr != "" {
			key := "migration:lint-results-differ"
			if cls := c.migUnknownIDClass(a.lintErr, false); cls != "" {
				key = "migration:emitted-" + cls
			} else if strings.Contains(a.lintErr, migEmptyRules) && c.exceptsCategory() {
				key = "migration:emitted-empty-rule-set"
			}
			return key, fmt.Sprintf("lint works before migration, fails after: %s\n%s", a.lintErr, ctxText)
		}
		for _, mod := range migKeys(b.lint) {
			if onlyB, onlyA := migDiffSets(b.lint[mod], a.lint[mod]); len(onlyB)+len(onlyA) > 0 {
				key := "migration:lint-results-differ"
				if lintOff, _ := c.checksDisabled(mod); lintOff {
					key = "migration:disabled-checks-reenabled"
				}
				if c.noBufYAML(mod) {
					key = "migration:no-buf-yaml-module-gets-v2-defaults"
				}
				if c.categoryDrift(mod, "lint", onlyB, onlyA) {
					key = "migration:ignore-only-category-membership-differs"
				}
				if c.exceptsCategory() && migLostToExceptCategory(st.migratedYAML, mod, "lint", onlyB, onlyA) {
					key = "migration:rule-lost-to-except-category"
				}
				return key, fmt.Sprintf("module %q: lint annotations only before (%d):\n  %s\nonly after (%d):\n  %s\n%s",
					mod, len(onlyB), strings.Join(onlyB, "\n  "), len(onlyA), strings.Join(onlyA, "\n  "), ctxText)
			}
		}
		// breaking against the fixed mutated copy
		if c.multiRootIn(in) {
			// migration splits a multi-root v1beta1 module into one module per root (documented); the
			// un-migrated copy then has a different number of modules and `buf breaking` cannot pair them.
			st.breakingSkipped++
			continue
		}
		set, mismatch, errText := a.breaking(ctx, W, against[in])
		if mismatch || errText != "" {
			key := "migration:breaking-results-differ"
			if cls := c.migUnknownIDClass(errText, false); cls != "" {
				key = "migration:emitted-" + cls
			} else if strings.Contains(errText, migEmptyRules) && c.exceptsCategory() {
				key = "migration:emitted-empty-rule-set"
			}
			return key, fmt.Sprintf("breaking against the un-migrated copy works before migration, fails after: %s\n%s", errText, ctxText)
		}
		st.breakingCompared++
		for _, mod := range migKeys(beforeBreaking[in]) {
			onlyB, onlyA := migDiffSets(beforeBreaking[in][mod], set[mod])
			if len(onlyB)+len(onlyA) == 0 {
				continue
			}
			key := "migration:breaking-results-differ"
			if _, brkOff := c.checksDisabled(mod); brkOff {
				key = "migration:disabled-checks-reenabled"
			}
			if c.noBufYAML(mod) {
				key = "migration:no-buf-yaml-module-gets-v2-defaults"
			}
			if c.categoryDrift(mod, "breaking", onlyB, onlyA) {
				key = "migration:ignore-only-category-membership-differs"
			}
			if c.exceptsCategory() && migLostToExceptCategory(st.migratedYAML, mod, "breaking", onlyB, onlyA) {
				key = "migration:rule-lost-to-except-category"
			}
			return key, fmt.Sprintf("module %q: breaking annotations only before (%d):\n  %s\nonly after (%d):\n  %s\n%s",
				mod, len(onlyB), strings.Join(onlyB, "\n  "), len(onlyA), strings.Join(onlyA, "\n  "), ctxText)
		}
	}
	return "", ""
}

// onlyExtraDepsOnSplitNamedModules: got = want + deps that name a named multi-root module of the workspace.
func (c *migCase) onlyExtraDepsOnSplitNamedModules(got, want []string) bool {
	wantSet := map[string]bool{}
	for _, w := range want {
		wantSet[w] = true
	}
	split := map[string]bool{}
	for _, m := range c.Modules {
		if m.Name != "" && m.MultiRoot {
			split[m.Name] = true
		}
	}
	extra := 0
	for _, g := range got {
		if wantSet[g] {
			delete(wantSet, g)
			continue
		}
		name := g
		if i := strings.LastIndex(g, ":"); i > strings.LastIndex(g, "/") {
			name = g[:i]
		}
		if !split[name] {
			return false
		}
		extra++
	}
	return extra > 0 && len(wantSet) == 0
}

func migEqualStrings(a, b []string) bool {
	if len(a) != len(b) {
		return false
	}
	for i := range a {
		if a[i] != b[i] {
			return false
		}
	}
	return true
}

// ---------------------------------------------------------------------------------------------
// test

func migClasses(r *evid.Recorder, ws *migWS, st *migStats) {
	r.Class("mig-layout-" + ws.Layout)
	r.Class(fmt.Sprintf("mig-modules-%d", len(ws.Modules)))
	versions := map[string]bool{}
	for _, m := range ws.Modules {
		versions[m.Version] = true
		r.Class("mig-module-" + m.Version)
		if m.NoBufYAML {
			r.Class("mig-module-without-buf-yaml")
		}
		if m.Name != "" {
			r.Class("mig-module-named")
		}
		for _, d := range m.Deps {
			sibling := false
			for _, o := range ws.Modules {
				if o != m && o.Name != "" && (d == o.Name || strings.HasPrefix(d, o.Name+":")) {
					sibling = true
					if o.Dir > m.Dir {
						r.Class("mig-dep-on-sibling-in-later-directory")
					} else {
						r.Class("mig-dep-on-sibling-in-earlier-directory")
					}
				}
			}
			if !sibling {
				r.Class("mig-dep-external")
			}
		}
		if len(m.Roots) == 1 {
			r.Class("mig-has-1-root")
		}
		if len(m.Roots) > 1 {
			r.Class("mig-has-2-roots")
		}
		if len(m.Excludes) > 0 {
			r.Class("mig-has-excludes")
		}
		for kind, cfg := range map[string]migCheckCfg{"lint": m.Lint, "breaking": m.Breaking} {
			if !cfg.Present {
				continue
			}
			r.Class("mig-has-" + kind + "-config")
			if len(cfg.Use) > 0 {
				r.Class("mig-" + kind + "-use")
			}
			if len(cfg.Except) > 0 {
				r.Class("mig-" + kind + "-except")
			}
			if len(cfg.Ignore) > 0 {
				r.Class("mig-" + kind + "-ignore")
				if cfg.Ignore[0] == "." {
					r.Class("mig-" + kind + "-ignore-module-itself")
				}
			}
			if len(cfg.IgnoreOnly) > 0 {
				r.Class("mig-" + kind + "-ignore-only")
			}
			tb := migTables[m.Version][kind]
			tbV2Missing := false
			depr := false
			ids := append(append([]string{}, cfg.Use...), cfg.Except...)
			for k := range cfg.IgnoreOnly {
				ids = append(ids, k)
			}
			for _, id := range ids {
				if tb.isDepr[id] || id == "DEFAULT" || id == "STYLE_DEFAULT" {
					depr = true
				}
				if !migTables["v2"][kind].has(id) {
					tbV2Missing = true
				}
			}
			if depr {
				r.Class("mig-" + kind + "-deprecated-id")
			}
			if tbV2Missing {
				r.Class("mig-" + kind + "-id-absent-in-v2")
			}
		}
		if m.Lint.AllowCommentIgnores {
			r.Class("mig-lint-allow-comment-ignores")
		}
		if m.Lint.EnumZeroValueSuffix != "" || m.Lint.ServiceSuffix != "" || m.Lint.RPCEmptyReq || m.Lint.RPCEmptyResp || m.Lint.RPCSameReqResp {
			r.Class("mig-lint-options")
		}
		if m.Breaking.IgnoreUnstable {
			r.Class("mig-breaking-ignore-unstable")
		}
	}
	if len(versions) == 2 {
		r.Class("mig-mixed-versions")
	}
	cross := false
	modOfFile := map[int]int{}
	for mi, m := range ws.Modules {
		for _, f := range m.Files {
			modOfFile[f.Idx] = mi
		}
	}
	for _, f := range ws.files {
		for _, i := range append(append([]int{}, f.Imports...), f.Unused...) {
			if modOfFile[i] != modOfFile[f.Idx] && !f.Excluded {
				cross = true
			}
		}
	}
	if cross {
		r.Class("mig-cross-module-import")
	}
	if st.lintAnns > 0 {
		r.Class("mig-lint-annotations>0")
	}
	if st.breakingAnns > 0 {
		r.Class("mig-breaking-annotations>0")
	}
	if st.breakingCompared > 0 {
		r.Class("mig-breaking-compared")
	}
	if st.breakingSkipped > 0 {
		r.Class("mig-breaking-input-skipped-multi-root")
	}
}

// TestMigration: migration of generated v1 / v1beta1 workspaces preserves files, descriptors, lint and
// breaking results per module.
func TestMigration(t *testing.T) {
	r := evid.R()
	home, err := os.MkdirTemp("", "c16mighome")
	if err != nil {
		t.Fatalf("harness: %v", err)
	}
	defer os.RemoveAll(home)
	env, err := migNewEnv(home)
	if err != nil {
		t.Fatalf("harness: %v", err)
	}
	r.Check(t, r.Scale(200, 5000), 7, func(t *rapid.T) {
		ws := migGenWS(t)
		c := migCaseOf(ws)
		st := &migStats{}
		key, msg := migOracle(t, env, c, st)
		r.Eval()
		migClasses(r, ws, st)
		nontrivial := false
		if len(ws.Modules) >= 2 {
			for _, m := range ws.Modules {
				if len(m.Roots) > 0 || len(m.Excludes) > 0 {
					nontrivial = true
				}
			}
		}
		if nontrivial {
			canon, _ := json.Marshal(c.Files)
			r.NonTrivial(string(canon))
			r.Sample(map[string]any{"layout": c.Layout, "modules": c.Modules, "files": c.Files, "migrated_buf_yaml": st.migratedYAML})
		}
		if key != "" {
			if r.Fail(t, key, msg, c) {
				return
			}
		}
	})
}

// replayMigration re-runs only the oracle on a saved migration case.
func replayMigration(t *testing.T, raw json.RawMessage) {
	var c migCase
	if err := json.Unmarshal(raw, &c); err != nil {
		t.Fatalf("harness: replay case: %v", err)
	}
	if len(c.Modules) == 0 || len(c.Files) == 0 || len(c.Inputs) == 0 {
		t.Fatalf("harness: replay case has no modules/files/inputs")
	}
	home, err := os.MkdirTemp("", "c16mighome")
	if err != nil {
		t.Fatalf("harness: %v", err)
	}
	defer os.RemoveAll(home)
	env, err := migNewEnv(home)
	if err != nil {
		t.Fatalf("harness: %v", err)
	}
	r := evid.R()
	st := &migStats{}
	key, msg := migOracle(t, env, &c, st)
	r.Eval()
	if key != "" {
		r.Fail(t, key, msg, &c)
	}
}

// ---------------------------------------------------------------------------------------------
// directed regressions: one minimal workspace per known migration defect

type migDirected struct {
	key  string
	what string
	c    migCase
}

func migDirectedCases() []migDirected {
	const src = "syntax = \"proto3\";\n\npackage a.v1;\n\nmessage foo_bar {\n  string bar = 1;\n}\n"
	const old = "syntax = \"proto3\";\n\npackage a.v1;\n\nmessage foo_bar {\n  string bar = 1;\n  string gone = 2;\n}\n"
	single := func(version, bufYAML string) migCase {
		return migCase{
			Kind: "migration", Layout: "root", Inputs: []string{"."},
			Modules: []migCaseMod{{Dir: ".", Version: version}},
			Files:   map[string]string{"buf.yaml": bufYAML, "a/v1/a.proto": src},
			Against: map[string]string{"buf.yaml": bufYAML, "a/v1/a.proto": old},
		}
	}
	const req = "syntax = \"proto2\";\n\npackage a.v1;\n\nmessage Foo {\n  required string bar = 1;\n}\n"
	const work = "version: v1\ndirectories:\n  - proto\n"
	return []migDirected{
		{"migration:emitted-v1beta1-only-id", "a v1beta1 buf.yaml with the default lint rules migrates to `use: [FIELD_NO_DESCRIPTOR]`, an id unknown to v2",
			single("v1beta1", "version: v1beta1\n")},
		{"migrate-failed:deprecated-id", "a deprecated breaking id that no longer exists in v2 is not translated; migration fails",
			single("v1", "version: v1\nbreaking:\n  use:\n    - FILE\n    - FIELD_SAME_LABEL\n")},
		{"migrate-failed:v1beta1-only-id", "a v1beta1-only lint category makes migration fail",
			single("v1beta1", "version: v1beta1\nlint:\n  use:\n    - FILE_LAYOUT\n")},
		{"migration:disabled-checks-reenabled", "lint switched off with `ignore: [.]` is switched on by migration",
			single("v1", "version: v1\nlint:\n  ignore:\n    - \".\"\n")},
		{"migration:emitted-empty-rule-set", "v1beta1 `breaking.except: [WIRE_JSON]` migrates to a v2 configuration whose rule set is empty",
			single("v1beta1", "version: v1beta1\nlint:\n  use:\n    - ENUM_PASCAL_CASE\nbreaking:\n  except:\n    - WIRE_JSON\n")},
		{"migrate-failed:empty-rule-set", "v1beta1 `breaking.use: [FILE_SAME_PACKAGE], except: [PACKAGE]` makes migration fail with a system error",
			single("v1beta1", "version: v1beta1\nlint:\n  use:\n    - ENUM_PASCAL_CASE\nbreaking:\n  use:\n    - FILE_SAME_PACKAGE\n  except:\n    - PACKAGE\n")},
		{"migration:ignore-only-category-membership-differs", "v1beta1 `breaking.ignore_only: {WIRE: [path]}` ignores FIELD_SAME_TYPE; the key is copied verbatim although v2's WIRE has no FIELD_SAME_TYPE",
			func() migCase {
				const y = "version: v1beta1\nlint:\n  use:\n    - ENUM_PASCAL_CASE\nbreaking:\n  ignore_only:\n    WIRE:\n      - a/v1/a.proto\n"
				c := single("v1beta1", y)
				c.Files["a/v1/a.proto"] = "syntax = \"proto3\";\n\npackage a.v1;\n\nmessage Foo {\n  bytes bar = 1;\n}\n"
				c.Against["a/v1/a.proto"] = "syntax = \"proto3\";\n\npackage a.v1;\n\nmessage Foo {\n  int64 bar = 1;\n}\n"
				return c
			}()},
		{"migration:rule-lost-to-except-category", "v1beta1 `breaking: {use: [FILE], except: [PACKAGE]}` checks FILE_SAME_PACKAGE (FILE-only in v1beta1); the migrator re-adds it through `use`, where v2's PACKAGE in `except` cancels it",
			func() migCase {
				const y = "version: v1beta1\nlint:\n  use:\n    - ENUM_PASCAL_CASE\nbreaking:\n  use:\n    - FILE\n  except:\n    - PACKAGE\n"
				c := single("v1beta1", y)
				c.Against["a/v1/a.proto"] = "syntax = \"proto3\";\n\npackage a.v1old;\n\nmessage foo_bar {\n  string bar = 1;\n}\n"
				return c
			}()},
		{"migration:dep-on-split-multi-root-sibling-kept", "a declared dep on a named multi-root v1beta1 sibling survives migration because the sibling's name is dropped when its roots become separate modules",
			func() migCase {
				const w = "version: v1\ndirectories:\n  - a\n  - b\n"
				const ya = "version: v1\ndeps:\n  - buf.build/acme/b\n"
				const yb = "version: v1beta1\nname: buf.build/acme/b\nbuild:\n  roots:\n    - x\n    - y\n"
				pkg := func(p string) string {
					return "syntax = \"proto3\";\n\npackage " + p + ".v1;\n\nmessage Foo {\n  string bar = 1;\n}\n"
				}
				files := map[string]string{"buf.work.yaml": w, "a/buf.yaml": ya, "b/buf.yaml": yb,
					"a/a/v1/a.proto": pkg("a"), "b/x/bx/v1/bx.proto": pkg("bx"), "b/y/by/v1/by.proto": pkg("by")}
				against := map[string]string{}
				for k, v := range files {
					against[k] = v
				}
				return migCase{
					Kind: "migration", Layout: "work", Inputs: []string{"."},
					Modules: []migCaseMod{{Dir: "a", Version: "v1", Deps: []string{"buf.build/acme/b"}}, {Dir: "b", Version: "v1beta1", MultiRoot: true, Name: "buf.build/acme/b"}},
					Files:   files, Against: against,
				}
			}()},
		{"migration:no-buf-yaml-module-gets-v2-defaults", "a workspace directory without buf.yaml gets the v2 default rules instead of the v1 ones",
			migCase{
				Kind: "migration", Layout: "work", Inputs: []string{".", "proto"},
				Modules: []migCaseMod{{Dir: "proto", Version: "v1", NoBufYAML: true}},
				Files:   map[string]string{"buf.work.yaml": work, "proto/a/v1/a.proto": req},
				Against: map[string]string{"buf.work.yaml": work, "proto/a/v1/a.proto": req},
			}},
	}
}

// TestMigrationKnownFindings re-observes every known migration defect on its minimal workspace
// (shard 0 only). A defect that is no longer observed is silently passed.
func TestMigrationKnownFindings(t *testing.T) {
	r := evid.R()
	if !r.Mine(0) {
		t.Skip("runs in shard 0 only")
	}
	home, err := os.MkdirTemp("", "c16mighome")
	if err != nil {
		t.Fatalf("harness: %v", err)
	}
	defer os.RemoveAll(home)
	env, err := migNewEnv(home)
	if err != nil {
		t.Fatalf("harness: %v", err)
	}
	for _, d := range migDirectedCases() {
		d := d
		t.Run(strings.NewReplacer(":", "_").Replace(d.key), func(t *testing.T) {
			defer r.Begin(t)()
			st := &migStats{}
			key, msg := migOracle(t, env, &d.c, st)
			r.Eval()
			r.Class("mig-directed-regression")
			if key == "" {
				r.Class("mig-directed-regression-not-observed")
				return
			}
			// key is normally d.key; any other key is a different falsification of the same property.
			r.Fail(t, key, fmt.Sprintf("directed regression (%s): %s", d.what, msg), &d.c)
		})
	}
}
