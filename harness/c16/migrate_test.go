package c16

import (
	"encoding/json"
	"testing"
)

// replayMigration is replaced by the migration part of the check.
func replayMigration(t *testing.T, raw json.RawMessage) { t.Skip("migration part not built yet") }
