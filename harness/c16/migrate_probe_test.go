package c16

import (
	"context"
	"fmt"
	"io"
	"log/slog"
	"os"
	"sort"
	"strings"
	"testing"

	"buf.build/go/bufplugin/check"
	"github.com/bufbuild/buf/private/bufpkg/bufcheck"
	"github.com/bufbuild/buf/private/bufpkg/bufconfig"
	"github.com/bufbuild/buf/private/bufpkg/bufplugin"
	"github.com/bufbuild/buf/private/pkg/wasm"
)

// TestMigProbe is a scratch probe (skipped unless MIG_PROBE is set).
func TestMigProbe(t *testing.T) {
	if os.Getenv("MIG_PROBE") == "" {
		t.Skip("probe")
	}
	ctx := context.Background()
	logger := slog.New(slog.NewTextHandler(io.Discard, nil))
	client, err := bufcheck.NewClient(logger, bufcheck.NewLocalRunnerProvider(wasm.UnimplementedRuntime, bufplugin.NopPluginKeyProvider, bufplugin.NopPluginDataProvider))
	if err != nil {
		t.Fatal(err)
	}
	for _, v := range []bufconfig.FileVersion{bufconfig.FileVersionV1Beta1, bufconfig.FileVersionV1, bufconfig.FileVersionV2} {
		for _, rt := range []check.RuleType{check.RuleTypeLint, check.RuleTypeBreaking} {
			rules, err := client.AllRules(ctx, rt, v)
			if err != nil {
				t.Fatal(err)
			}
			cats := map[string]bool{}
			var ids []string
			for _, r := range rules {
				s := r.ID()
				if r.Default() {
					s += "*"
				}
				if r.Deprecated() {
					s += fmt.Sprintf("(DEPRECATED->%v)", r.ReplacementIDs())
				}
				ids = append(ids, s)
				for _, c := range r.Categories() {
					cs := c.ID()
					if c.Deprecated() {
						cs += fmt.Sprintf("(DEPRECATED->%v)", c.ReplacementIDs())
					}
					cats[cs] = true
				}
			}
			var cl []string
			for c := range cats {
				cl = append(cl, c)
			}
			sort.Strings(cl)
			fmt.Printf("== %v %v: %d rules\n  cats: %s\n  ids: %s\n", v, rt, len(rules), strings.Join(cl, " "), strings.Join(ids, " "))
		}
	}
}
