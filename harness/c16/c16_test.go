// C16 — configuration files round-trip; migration to v2 preserves behaviour.
package c16

import (
	"encoding/json"
	"testing"

	"github.com/bufbuild/bufverif/internal/evid"
)

func TestMain(m *testing.M) { evid.Main(m, "C16") }

// TestReplay re-runs the oracle on a saved case (no generator). The case carries a "kind" member:
// "migration" cases belong to migrate_test.go, everything else is a configuration document.
func TestReplay(t *testing.T) {
	var raw json.RawMessage
	ok, err := evid.ReplayCase(&raw)
	if !ok {
		t.Skip("no VERIF_REPLAY")
	}
	if err != nil {
		t.Fatal(err)
	}
	var env struct {
		Kind string `json:"kind"`
	}
	if err := json.Unmarshal(raw, &env); err != nil {
		t.Fatalf("harness: replay case: %v", err)
	}
	r := evid.R()
	defer r.Begin(t)()
	if env.Kind == "migration" {
		replayMigration(t, raw)
		return
	}
	replayDoc(t, raw)
}
