// Generator of v1 / v1beta1 workspaces for the migration part of C16 (see migrate_test.go).
//
// Everything random is drawn from rapid; the rule-id / category tables are read once per process from
// bufcheck (AllRules per file version), sorted, so that only ids valid for the version of the generated
// buf.yaml are used (including ids that are deprecated or absent in v2).
package c16

import (
	"context"
	"fmt"
	"sort"
	"strings"

	"buf.build/go/bufplugin/check"
	"github.com/bufbuild/buf/private/bufpkg/bufcheck"
	"github.com/bufbuild/buf/private/bufpkg/bufconfig"
	"github.com/bufbuild/buf/private/bufpkg/bufplugin"
	"github.com/bufbuild/buf/private/pkg/wasm"
	"github.com/bufbuild/bufverif/internal/evid"
	"pgregory.net/rapid"
)

// ---------------------------------------------------------------------------------------------
// rule tables

type migRuleTable struct {
	ids      []string            // sorted, all rule ids of the type (deprecated included)
	cats     []string            // sorted, all category ids carried by rules of the type
	catRules map[string][]string // category -> rule ids
	repl     map[string][]string // deprecated rule id -> replacement ids (possibly empty)
	isDepr   map[string]bool
	defaults []string
}

// migTables[version]["lint"|"breaking"]
var migTables map[string]map[string]*migRuleTable

func migLoadTables() error {
	if migTables != nil {
		return nil
	}
	ctx := context.Background()
	client, err := bufcheck.NewClient(migLogger, bufcheck.NewLocalRunnerProvider(wasm.UnimplementedRuntime, bufplugin.NopPluginKeyProvider, bufplugin.NopPluginDataProvider))
	if err != nil {
		return err
	}
	out := map[string]map[string]*migRuleTable{}
	for vs, v := range map[string]bufconfig.FileVersion{"v1beta1": bufconfig.FileVersionV1Beta1, "v1": bufconfig.FileVersionV1, "v2": bufconfig.FileVersionV2} {
		out[vs] = map[string]*migRuleTable{}
		for ts, rt := range map[string]check.RuleType{"lint": check.RuleTypeLint, "breaking": check.RuleTypeBreaking} {
			rules, err := client.AllRules(ctx, rt, v)
			if err != nil {
				return err
			}
			tb := &migRuleTable{catRules: map[string][]string{}, repl: map[string][]string{}, isDepr: map[string]bool{}}
			for _, r := range rules {
				tb.ids = append(tb.ids, r.ID())
				if r.Deprecated() {
					tb.isDepr[r.ID()] = true
					tb.repl[r.ID()] = append([]string{}, r.ReplacementIDs()...)
				}
				if r.Default() {
					tb.defaults = append(tb.defaults, r.ID())
				}
				for _, c := range r.Categories() {
					tb.catRules[c.ID()] = append(tb.catRules[c.ID()], r.ID())
				}
			}
			sort.Strings(tb.ids)
			sort.Strings(tb.defaults)
			for c := range tb.catRules {
				tb.cats = append(tb.cats, c)
				sort.Strings(tb.catRules[c])
			}
			sort.Strings(tb.cats)
			if len(tb.ids) == 0 || len(tb.cats) == 0 {
				return fmt.Errorf("empty rule table for %s %s", vs, ts)
			}
			out[vs][ts] = tb
		}
	}
	migTables = out
	return nil
}

// expand returns the set of non-deprecated rule ids an id/category list stands for.
func (tb *migRuleTable) expand(items []string) map[string]bool {
	set := map[string]bool{}
	var add func(id string, depth int)
	add = func(id string, depth int) {
		if tb.isDepr[id] {
			if depth > 3 {
				return
			}
			for _, r := range tb.repl[id] {
				add(r, depth+1)
			}
			return
		}
		set[id] = true
	}
	for _, it := range items {
		if rs, ok := tb.catRules[it]; ok {
			for _, r := range rs {
				add(r, 0)
			}
			continue
		}
		add(it, 0)
	}
	return set
}

// effectiveNonEmpty says whether use minus except leaves at least one rule.
func (tb *migRuleTable) effectiveNonEmpty(use, except []string) bool {
	u := use
	if len(u) == 0 {
		u = tb.defaults
	}
	us := tb.expand(u)
	for id := range tb.expand(except) {
		delete(us, id)
	}
	return len(us) > 0
}

func (tb *migRuleTable) has(id string) bool {
	i := sort.SearchStrings(tb.ids, id)
	if i < len(tb.ids) && tb.ids[i] == id {
		return true
	}
	_, ok := tb.catRules[id]
	return ok
}

// ids that the generated sources can actually trigger (filtered per version by has()).
var migHotLint = []string{
	"ENUM_ZERO_VALUE_SUFFIX", "ENUM_VALUE_PREFIX", "FIELD_LOWER_SNAKE_CASE", "MESSAGE_PASCAL_CASE", "SERVICE_SUFFIX",
	"RPC_REQUEST_STANDARD_NAME", "RPC_RESPONSE_STANDARD_NAME", "RPC_REQUEST_RESPONSE_UNIQUE", "PACKAGE_VERSION_SUFFIX",
	"PACKAGE_DIRECTORY_MATCH", "DIRECTORY_SAME_PACKAGE", "PACKAGE_SAME_DIRECTORY", "FILE_LOWER_SNAKE_CASE", "IMPORT_USED",
	"COMMENT_MESSAGE", "COMMENT_FIELD", "COMMENT_ENUM", "COMMENT_ENUM_VALUE", "COMMENT_SERVICE", "COMMENT_RPC",
	"ENUM_FIRST_VALUE_ZERO", "PACKAGE_SAME_GO_PACKAGE", "RPC_NO_SERVER_STREAMING", "ENUM_VALUE_UPPER_SNAKE_CASE",
	"IMPORT_NO_WEAK", "FIELD_NO_DESCRIPTOR",
	"DEFAULT", "STANDARD", "BASIC", "MINIMAL", "COMMENTS", "UNARY_RPC", "STYLE_DEFAULT", "STYLE_BASIC", "STYLE_STANDARD",
	"FILE_LAYOUT", "PACKAGE_AFFINITY", "SENSIBLE", "OTHER",
}

var migHotBreaking = []string{
	"FIELD_NO_DELETE", "FIELD_SAME_TYPE", "MESSAGE_NO_DELETE", "ENUM_VALUE_NO_DELETE", "RPC_NO_DELETE", "FILE_SAME_PACKAGE",
	"FIELD_NO_DELETE_UNLESS_NUMBER_RESERVED", "FIELD_NO_DELETE_UNLESS_NAME_RESERVED", "ENUM_VALUE_NO_DELETE_UNLESS_NUMBER_RESERVED",
	"ENUM_VALUE_NO_DELETE_UNLESS_NAME_RESERVED", "PACKAGE_MESSAGE_NO_DELETE", "PACKAGE_NO_DELETE", "FIELD_WIRE_COMPATIBLE_TYPE",
	"FIELD_WIRE_JSON_COMPATIBLE_TYPE", "FIELD_SAME_LABEL", "FIELD_SAME_CTYPE", "FILE_SAME_GO_PACKAGE", "FIELD_SAME_CARDINALITY",
	"FIELD_SAME_JSON_NAME", "FIELD_SAME_NAME", "FILE_SAME_JAVA_STRING_CHECK_UTF8", "FILE_SAME_PHP_GENERIC_SERVICES",
	"FIELD_WIRE_COMPATIBLE_CARDINALITY", "FIELD_WIRE_JSON_COMPATIBLE_CARDINALITY", "MESSAGE_SAME_MESSAGE_SET_WIRE_FORMAT",
	"FILE", "PACKAGE", "WIRE_JSON", "WIRE",
}

// ---------------------------------------------------------------------------------------------
// model

type migCheckCfg struct {
	Present    bool
	Use        []string
	Except     []string
	Ignore     []string
	IgnoreOnly map[string][]string
	// lint options
	EnumZeroValueSuffix string
	RPCSameReqResp      bool
	RPCEmptyReq         bool
	RPCEmptyResp        bool
	ServiceSuffix       string
	AllowCommentIgnores bool
	// breaking option
	IgnoreUnstable bool
}

type migField struct {
	Name, Type  string
	Num         int
	Repeated    bool
	OnlyAgainst bool
	AgName      string // name in the against copy ("" = same)
	AgType      string
	AgRepeated  bool // against copy has the opposite cardinality
	Comment     bool
	IgnoreRule  string // "// buf:lint:ignore <rule>" above the field
}

type migMsg struct {
	Name        string
	Fields      []migField
	OnlyAgainst bool
	Comment     bool
	IgnoreRule  string
}

type migEnumVal struct {
	Name        string
	Num         int
	OnlyAgainst bool
	Comment     bool
}

type migEnum struct {
	Name    string
	Vals    []migEnumVal
	Comment bool
}

type migRPC struct {
	Name, Req, Resp string
	ServerStream    bool
	OnlyAgainst     bool
	Comment         bool
}

type migSvc struct {
	Name    string
	RPCs    []migRPC
	Comment bool
}

type migProto struct {
	Idx      int
	Root     string // "." or a v1beta1 root (module-dir relative)
	RelPath  string // root-relative path = import path
	Excluded bool
	Pkg      string
	AgPkg    string // package in the against copy ("" = same)
	GoPkg    string
	AgGoPkg  string
	Imports  []int // indexes of imported files
	Unused   []int // imported but not referenced
	Empty    bool  // imports google/protobuf/empty.proto
	Msgs     []migMsg
	Enums    []migEnum
	Svc      *migSvc
	imported bool
}

type migMod struct {
	Dir       string // workspace-relative ("." for a root module)
	Version   string // v1 | v1beta1
	Name      string
	NoBufYAML bool
	Deps      []string // declared deps as written in buf.yaml (names of sibling modules and of external modules)
	Roots     []string // explicit v1beta1 roots (nil = none written)
	Excludes  []string // as written in buf.yaml (module-dir relative)
	Lint      migCheckCfg
	Breaking  migCheckCfg
	Files     []*migProto
}

func (m *migMod) rootList() []string {
	if len(m.Roots) == 0 {
		return []string{"."}
	}
	return m.Roots
}

type migWS struct {
	Layout  string // work | root | subdir
	Modules []*migMod
	// InputMod is the module whose directory is used as a second input next to the workspace directory
	// (layout "work" only).
	InputMod int
	files    []*migProto // all files in index order
}

// ---------------------------------------------------------------------------------------------
// drawing helpers

// migUniform draws a uniformly distributed integer in [0, n) (rapid's integer generators are biased
// towards small values); it shrinks towards 0.
func migUniform(t *rapid.T, label string, n int) int {
	if n <= 1 {
		return 0
	}
	v := 0
	for i := 0; i < 10; i++ {
		v <<= 1
		if rapid.Bool().Draw(t, label) {
			v |= 1
		}
	}
	return v * n / 1024
}

// migChance is true with probability pct/100; it shrinks towards false.
func migChance(t *rapid.T, label string, pct int) bool {
	return migUniform(t, label, 100) >= 100-pct
}

// migRange draws uniformly from [lo, hi].
func migRange(t *rapid.T, label string, lo, hi int) int {
	return lo + migUniform(t, label, hi-lo+1)
}

func migPick(t *rapid.T, label string, from []string) string {
	return from[migUniform(t, label, len(from))]
}

func migJoin(parts ...string) string {
	var out []string
	for _, p := range parts {
		if p == "" || p == "." {
			continue
		}
		out = append(out, p)
	}
	if len(out) == 0 {
		return "."
	}
	return strings.Join(out, "/")
}

// migPrefixFree adds p to set unless it equals, contains or is contained by a member.
func migPrefixFree(set []string, p string) []string {
	for _, q := range set {
		if p == q || strings.HasPrefix(p, q+"/") || strings.HasPrefix(q, p+"/") {
			return set
		}
	}
	return append(set, p)
}

// ---------------------------------------------------------------------------------------------
// workspace generator

var migModDirPool = []string{"proto", "api/v1mod", "vendor/x", "svc/a", "svc/b", "third_party/protos", "m"}
var migRootPairs = [][]string{{"proto", "src"}, {"idl/main", "idl/extra"}, {"a", "b/c"}}
var migRootSingles = []string{"proto", "src", "idl/main", "."}
var migScalar = []string{"string", "int32", "int64", "bool", "bytes", "uint32", "double"}

// external modules a buf.yaml may declare (never imported, no buf.lock: declared-only deps) and the
// single ref each of them may carry.
var migExternalDeps = []string{"buf.build/googleapis/googleapis", "buf.build/acme/extapis", "bsr.example.com/other/ext"}
var migExternalRefs = []string{"", "v1.2.0", "main"}

func migGenWS(t *rapid.T) *migWS {
	ws := &migWS{}
	switch k := migRange(t, "layout", 0, 99); {
	case k < 68:
		ws.Layout = "work"
	case k < 84:
		ws.Layout = "root"
	default:
		ws.Layout = "subdir"
	}
	nMods := 1
	if ws.Layout == "work" {
		nMods = migRange(t, "nmods", 1, 3)
	}
	dirs := rapid.Permutation(migModDirPool).Draw(t, "moddirs")[:nMods]
	if ws.Layout == "root" {
		dirs = []string{"."}
	}
	for i := 0; i < nMods; i++ {
		m := &migMod{Dir: dirs[i], Version: "v1"}
		if migChance(t, "v1beta1", 42) {
			m.Version = "v1beta1"
		}
		if ws.Layout == "work" && migChance(t, "nobufyaml", 4) {
			m.NoBufYAML = true
			m.Version = "v1"
		}
		if !m.NoBufYAML && migChance(t, "named", 40) {
			m.Name = fmt.Sprintf("buf.build/acme/mod%d", i)
		}
		if m.Version == "v1beta1" {
			switch r := migRange(t, "rootshape", 0, 9); {
			case r < 3: // no roots key
			case r < 7:
				m.Roots = []string{migPick(t, "root", migRootSingles)}
			default:
				m.Roots = append([]string{}, migRootPairs[migRange(t, "rootpair", 0, len(migRootPairs)-1)]...)
				if migChance(t, "rootswap", 50) {
					m.Roots[0], m.Roots[1] = m.Roots[1], m.Roots[0]
				}
			}
		}
		ws.Modules = append(ws.Modules, m)
	}
	// declared dependencies: on named sibling modules of the workspace (in either directory order;
	// the migrated workspace must not list those) and on external modules (kept; a name that is
	// declared both bare and with a ref keeps the ref; never two different refs for one name, which
	// would need the registry to resolve)
	// (a v1 workspace rejects two spellings of one module among all its deps, so each name gets one
	// spelling per workspace)
	spelling := map[string]string{}
	for _, o := range ws.Modules {
		if o.Name != "" {
			spelling[o.Name] = o.Name
			if migChance(t, "sibdepref", 15) {
				spelling[o.Name] = o.Name + ":main"
			}
		}
	}
	for k, ext := range migExternalDeps {
		spelling[ext] = ext
		if migExternalRefs[k] != "" && migChance(t, "extdepref", 50) {
			spelling[ext] = ext + ":" + migExternalRefs[k]
		}
	}
	for i, m := range ws.Modules {
		if m.NoBufYAML {
			continue
		}
		for j, o := range ws.Modules {
			if j != i && o.Name != "" && migChance(t, "sibdep", 40) {
				m.Deps = append(m.Deps, spelling[o.Name])
			}
		}
		for _, ext := range migExternalDeps {
			if migChance(t, "extdep", 22) {
				m.Deps = append(m.Deps, spelling[ext])
			}
		}
		if len(m.Deps) > 1 && migChance(t, "depsperm", 50) {
			m.Deps = rapid.Permutation(m.Deps).Draw(t, "depsorder")
		}
	}
	ws.InputMod = migUniform(t, "inputmod", nMods)
	// files
	for mi, m := range ws.Modules {
		for _, root := range m.rootList() {
			n := migRange(t, "nfiles", 1, 3)
			if len(m.rootList()) > 1 {
				n = migRange(t, "nfiles2", 1, 2)
			}
			var inRoot []*migProto
			for j := 0; j < n; j++ {
				f := migGenProto(t, ws, mi, root, inRoot, false)
				inRoot = append(inRoot, f)
				m.Files = append(m.Files, f)
			}
			if !m.NoBufYAML && migChance(t, "exclude", 45) {
				f := migGenProto(t, ws, mi, root, nil, true)
				m.Files = append(m.Files, f)
				// the excluded directory: the file's directory or its first component
				dir := f.RelPath[:strings.LastIndex(f.RelPath, "/")]
				if migChance(t, "excltop", 50) {
					dir = strings.SplitN(dir, "/", 2)[0]
				}
				m.Excludes = append(m.Excludes, migJoin(root, dir))
			}
		}
	}
	// against-only package changes: only for files nobody imports and that are not excluded
	for _, f := range ws.files {
		if !f.imported && !f.Excluded && migChance(t, "agpkg", 12) {
			f.AgPkg = f.Pkg + "old"
		}
	}
	// make sure there is at least one difference between the workspace and the against copy
	migEnsureMutation(ws)
	mixed := false
	for _, m := range ws.Modules {
		if m.Version != ws.Modules[0].Version {
			mixed = true
		}
	}
	for _, m := range ws.Modules {
		if m.NoBufYAML {
			continue
		}
		m.Lint = migGenCheckCfg(t, m, "lint", mixed)
		m.Breaking = migGenCheckCfg(t, m, "breaking", mixed)
	}
	return ws
}

func migEnsureMutation(ws *migWS) {
	for _, f := range ws.files {
		if f.Excluded {
			continue
		}
		if f.AgPkg != "" || f.AgGoPkg != "" {
			return
		}
		for _, m := range f.Msgs {
			if m.OnlyAgainst {
				return
			}
			for _, fl := range m.Fields {
				if fl.OnlyAgainst || fl.AgName != "" || fl.AgType != "" || fl.AgRepeated {
					return
				}
			}
		}
		for _, e := range f.Enums {
			for _, v := range e.Vals {
				if v.OnlyAgainst {
					return
				}
			}
		}
		if f.Svc != nil {
			for _, r := range f.Svc.RPCs {
				if r.OnlyAgainst {
					return
				}
			}
		}
	}
	for _, f := range ws.files {
		if !f.Excluded {
			f.Msgs[0].Fields = append(f.Msgs[0].Fields, migField{Name: "forced_gone", Type: "string", Num: 15, OnlyAgainst: true})
			return
		}
	}
}

// migGenProto draws one file. siblings are the earlier non-excluded files of the same root.
func migGenProto(t *rapid.T, ws *migWS, modIdx int, root string, siblings []*migProto, excluded bool) *migProto {
	k := len(ws.files)
	// Module-wide lint rules see all roots of a v1beta1 module at once, but one root at a time after the
	// documented split into one module per root. The only type the generated files share is
	// google.protobuf.Empty (RPC_REQUEST_RESPONSE_UNIQUE), so only the first root of a multi-root module
	// may use it.
	emptyOK := root == ws.Modules[modIdx].rootList()[0]
	f := &migProto{Idx: k, Root: root, Excluded: excluded}
	base := fmt.Sprintf("pk%d", k)
	ver := migPick(t, "pkgver", []string{"v1", "v1", "v2", "v1beta1", "v1alpha2", ""})
	f.Pkg = "acme." + base
	if ver != "" {
		f.Pkg += "." + ver
	}
	dir := strings.ReplaceAll(f.Pkg, ".", "/")
	if migChance(t, "dirmismatch", 25) {
		dir = fmt.Sprintf("misc%d/x", k)
	}
	if excluded {
		dir = fmt.Sprintf("excl%d/gen", k)
	} else if len(siblings) > 0 && migChance(t, "sibling", 30) {
		s := siblings[migRange(t, "sibof", 0, len(siblings)-1)]
		dir = s.RelPath[:strings.LastIndex(s.RelPath, "/")]
		if migChance(t, "sibsamepkg", 50) {
			f.Pkg = s.Pkg
		}
	}
	name := fmt.Sprintf("f%d.proto", k)
	if migChance(t, "badfilename", 12) {
		name = fmt.Sprintf("F%dBad.proto", k)
	}
	f.RelPath = dir + "/" + name
	if migChance(t, "gopkg", 35) {
		f.GoPkg = fmt.Sprintf("example.com/gen/%s;p%d", base, migRange(t, "gopkgv", 0, 1))
		if migChance(t, "aggopkg", 25) {
			f.AgGoPkg = fmt.Sprintf("example.com/old/%s", base)
		}
	}
	// imports: earlier, non-excluded files anywhere in the workspace
	var cands []int
	for _, g := range ws.files {
		if !g.Excluded {
			cands = append(cands, g.Idx)
		}
	}
	if len(cands) > 0 && migChance(t, "imports", 60) {
		n := migRange(t, "nimports", 1, 2)
		seen := map[int]bool{}
		for i := 0; i < n; i++ {
			c := cands[migRange(t, "import", 0, len(cands)-1)]
			if seen[c] {
				continue
			}
			seen[c] = true
			if migChance(t, "unusedimport", 25) {
				f.Unused = append(f.Unused, c)
			} else {
				f.Imports = append(f.Imports, c)
			}
			if !excluded {
				ws.files[c].imported = true
			}
		}
	}
	pre := fmt.Sprintf("M%d", k)
	// message A
	ma := migMsg{Name: pre + "Alpha", Comment: migChance(t, "cmsg", 40)}
	if migChance(t, "badmsgname", 25) {
		ma.Name = fmt.Sprintf("m%d_alpha", k)
		if migChance(t, "ignmsg", 40) {
			ma.IgnoreRule = "MESSAGE_PASCAL_CASE"
		}
	}
	nf := migRange(t, "nfields", 1, 3)
	for i := 0; i < nf; i++ {
		fl := migField{Name: fmt.Sprintf("field_%d", i), Type: migPick(t, "ftype", migScalar), Num: i + 1, Comment: migChance(t, "cfield", 30)}
		if migChance(t, "camel", 30) {
			fl.Name = fmt.Sprintf("fieldCamel%d", i)
			if migChance(t, "ignfield", 50) {
				fl.IgnoreRule = migPick(t, "ignrule", []string{"FIELD_LOWER_SNAKE_CASE", "FIELD_LOWER_SNAKE_CASE", "ENUM_PASCAL_CASE"})
			}
		}
		fl.Repeated = migChance(t, "repeated", 15)
		switch mu := migRange(t, "fmut", 0, 19); mu {
		case 0:
			fl.AgType = migPick(t, "agtype", migScalar)
			if fl.AgType == fl.Type {
				fl.AgType = ""
			}
		case 1:
			fl.AgName = fl.Name + "_old"
		case 2:
			fl.AgRepeated = true
		}
		ma.Fields = append(ma.Fields, fl)
	}
	for i, imp := range f.Imports {
		g := ws.files[imp]
		ma.Fields = append(ma.Fields, migField{Name: fmt.Sprintf("ref_%d", i), Type: g.Pkg + "." + g.Msgs[0].Name, Num: 10 + i})
	}
	if migChance(t, "goneField", 35) {
		ma.Fields = append(ma.Fields, migField{Name: "gone_field", Type: "string", Num: 9, OnlyAgainst: true})
	}
	f.Msgs = append(f.Msgs, ma)
	if migChance(t, "goneMsg", 20) {
		f.Msgs = append(f.Msgs, migMsg{Name: pre + "Gone", OnlyAgainst: true, Fields: []migField{{Name: "x", Type: "string", Num: 1}}})
	}
	// enum
	if migChance(t, "enum", 65) {
		en := fmt.Sprintf("E%d", k)
		up := strings.ToUpper(en)
		e := migEnum{Name: en, Comment: migChance(t, "cenum", 30)}
		zero := up + "_UNSPECIFIED"
		switch z := migRange(t, "zerokind", 0, 5); z {
		case 0:
			zero = up + "_ZERO"
		case 1:
			zero = up + "_NONE"
		case 2:
			zero = "UNKNOWN" + fmt.Sprint(k) // no prefix, no suffix
		}
		e.Vals = append(e.Vals, migEnumVal{Name: zero, Num: 0, Comment: migChance(t, "cval", 30)})
		one := up + "_ONE"
		if migChance(t, "badvalprefix", 25) {
			one = fmt.Sprintf("ONE_%d", k)
		}
		e.Vals = append(e.Vals, migEnumVal{Name: one, Num: 1})
		if migChance(t, "goneVal", 30) {
			e.Vals = append(e.Vals, migEnumVal{Name: up + "_GONE", Num: 2, OnlyAgainst: true})
		}
		f.Enums = append(f.Enums, e)
	}
	// service
	if migChance(t, "svc", 50) {
		s := &migSvc{Comment: migChance(t, "csvc", 30)}
		s.Name = fmt.Sprintf("S%d", k) + migPick(t, "svcsuffix", []string{"Service", "Service", "Api", "API", ""})
		nr := migRange(t, "nrpcs", 1, 2)
		for i := 0; i < nr; i++ {
			rn := fmt.Sprintf("Get%dx%d", k, i)
			r := migRPC{Name: rn, Comment: migChance(t, "crpc", 30)}
			sh := migRange(t, "rpcshape", 0, 5)
			if !emptyOK && (sh == 1 || sh == 2) {
				evid.R().Excluded("mig-shared-rpc-type-across-roots-of-one-module")
				sh = 3
			}
			switch sh {
			case 0: // same message for both
				r.Req, r.Resp = ma.Name, ma.Name
			case 1:
				f.Empty = true
				r.Req, r.Resp = "google.protobuf.Empty", "google.protobuf.Empty"
			case 2:
				f.Empty = true
				r.Req, r.Resp = rn+"Request", "google.protobuf.Empty"
				f.Msgs = append(f.Msgs, migMsg{Name: rn + "Request", Fields: []migField{{Name: "id", Type: "string", Num: 1}}})
			default:
				r.Req, r.Resp = rn+"Request", rn+"Response"
				f.Msgs = append(f.Msgs, migMsg{Name: rn + "Request", Fields: []migField{{Name: "id", Type: "string", Num: 1}}})
				f.Msgs = append(f.Msgs, migMsg{Name: rn + "Response", Fields: []migField{{Name: "ok", Type: "bool", Num: 1}}})
			}
			r.ServerStream = migChance(t, "stream", 15)
			s.RPCs = append(s.RPCs, r)
		}
		if migChance(t, "goneRPC", 30) {
			s.RPCs = append(s.RPCs, migRPC{Name: fmt.Sprintf("Gone%d", k), Req: ma.Name, Resp: ma.Name, OnlyAgainst: true})
		}
		f.Svc = s
	}
	ws.files = append(ws.files, f)
	return f
}

// migIgnoreCandidates lists root-relative paths (directories, their ancestors and files) of a module.
func migIgnoreCandidates(m *migMod) []string {
	seen := map[string]bool{}
	var out []string
	add := func(p string) {
		if p != "" && p != "." && !seen[p] {
			seen[p] = true
			out = append(out, p)
		}
	}
	for _, f := range m.Files {
		parts := strings.Split(f.RelPath, "/")
		for i := 1; i <= len(parts); i++ {
			add(strings.Join(parts[:i], "/"))
		}
	}
	add("nope/missing")
	sort.Strings(out)
	return out
}

func migGenPaths(t *rapid.T, label string, cands []string, max int) []string {
	n := migRange(t, label+"_n", 1, max)
	var out []string
	for i := 0; i < n; i++ {
		out = migPrefixFree(out, migPick(t, label, cands))
	}
	sort.Strings(out)
	return out
}

func migGenCheckCfg(t *rapid.T, m *migMod, kind string, mixed bool) migCheckCfg {
	var c migCheckCfg
	presentPct := 78
	if kind == "lint" && m.Version == "v1beta1" {
		presentPct = 92
	}
	if !migChance(t, kind+"_present", presentPct) {
		return c
	}
	c.Present = true
	tb := migTables[m.Version][kind]
	hotAll := migHotLint
	if kind == "breaking" {
		hotAll = migHotBreaking
	}
	var hot []string
	for _, id := range hotAll {
		if tb.has(id) {
			hot = append(hot, id)
		}
	}
	// In a workspace that mixes v1 and v1beta1 modules buf resolves the `use` lists of all modules
	// against the rule table of the module being checked, so `use` may only name ids known to both.
	filter := func(ids []string, common bool) []string {
		if !common {
			return ids
		}
		var out []string
		for _, id := range ids {
			if migTables["v1"][kind].has(id) && migTables["v1beta1"][kind].has(id) {
				out = append(out, id)
			}
		}
		return out
	}
	// Ids that run into an already known migration defect are kept, but at a low rate, so that the
	// search is not starved: ids that do not exist in v2 (deprecated-and-removed or v1beta1-only) and,
	// in a v1beta1 `use` list, categories that contain the v1beta1-only rule FIELD_NO_DESCRIPTOR.
	v2 := migTables["v2"][kind]
	risky := func(id string, inUse bool) bool {
		if !v2.has(id) {
			return true
		}
		if inUse && kind == "lint" && m.Version == "v1beta1" {
			for _, r := range tb.catRules[id] {
				if r == "FIELD_NO_DESCRIPTOR" {
					return true
				}
			}
		}
		return false
	}
	pickID := func(label string, common bool, inUse bool) string {
		var from []string
		switch k := migRange(t, label+"_src", 0, 9); {
		case k < 6:
			from = filter(hot, common)
		case k < 8:
			from = filter(tb.cats, common)
		default:
			from = filter(tb.ids, common)
		}
		id := migPick(t, label+"_id", from)
		if risky(id, inUse) && !migChance(t, label+"_risky", 12) {
			// steer away from an id of a known-defect shape (kept in about one case of eight)
			var safe []string
			for _, x := range from {
				if !risky(x, inUse) {
					safe = append(safe, x)
				}
			}
			if len(safe) > 0 {
				evid.R().Excluded("mig-id-of-known-defect-shape-redrawn")
				id = migPick(t, label+"_safeid", safe)
			}
		}
		return id
	}
	pickIDs := func(label string, max int, common bool, inUse bool) []string {
		n := migRange(t, label+"_n", 1, max)
		seen := map[string]bool{}
		var out []string
		for i := 0; i < n; i++ {
			id := pickID(label, common, inUse)
			if !seen[id] {
				seen[id] = true
				out = append(out, id)
			}
		}
		return out
	}
	usePct := 60
	if kind == "lint" && m.Version == "v1beta1" {
		// the default v1beta1 lint rule set contains FIELD_NO_DESCRIPTOR (known defect): mostly explicit lists
		usePct = 85
	}
	if migChance(t, kind+"_use", usePct) {
		if mixed {
			// not valid before migration already: buf resolves it against the other module's rule table
			evid.R().Excluded("mig-use-id-unknown-to-other-version-of-mixed-workspace")
		}
		c.Use = pickIDs(kind+"_useid", 3, mixed, true)
	}
	if migChance(t, kind+"_except", 45) {
		c.Except = pickIDs(kind+"_exceptid", 3, false, false)
	}
	if !tb.effectiveNonEmpty(c.Use, c.Except) {
		c.Except = nil
	}
	if !tb.effectiveNonEmpty(c.Use, c.Except) {
		c.Use = append(c.Use, tb.defaults[0])
	}
	cands := migIgnoreCandidates(m)
	if migChance(t, kind+"_ignore", 38) {
		if migChance(t, kind+"_ignoredot", 4) {
			c.Ignore = []string{"."}
		} else {
			c.Ignore = migGenPaths(t, kind+"_ignorepath", cands, 2)
		}
	}
	if migChance(t, kind+"_ignoreonly", 40) {
		c.IgnoreOnly = map[string][]string{}
		n := migRange(t, kind+"_ion", 1, 2)
		for i := 0; i < n; i++ {
			c.IgnoreOnly[pickID(kind+"_ioid", false, false)] = migGenPaths(t, kind+"_iopath", cands, 2)
		}
	}
	if kind == "lint" {
		if migChance(t, "ezvs", 25) {
			c.EnumZeroValueSuffix = migPick(t, "ezvsv", []string{"_ZERO", "_NONE", "_UNSPECIFIED"})
		}
		c.RPCSameReqResp = migChance(t, "rasrr", 25)
		c.RPCEmptyReq = migChance(t, "raereq", 25)
		c.RPCEmptyResp = migChance(t, "raeresp", 25)
		if migChance(t, "ssfx", 25) {
			c.ServiceSuffix = migPick(t, "ssfxv", []string{"Api", "API", "Service"})
		}
		c.AllowCommentIgnores = migChance(t, "aci", 45)
	} else {
		c.IgnoreUnstable = migChance(t, "iup", 30)
	}
	return c
}

// ---------------------------------------------------------------------------------------------
// rendering

func migYAMLList(b *strings.Builder, indent, key string, items []string) {
	if len(items) == 0 {
		return
	}
	fmt.Fprintf(b, "%s%s:\n", indent, key)
	for _, it := range items {
		fmt.Fprintf(b, "%s  - %s\n", indent, migYAMLScalar(it))
	}
}

func migYAMLScalar(s string) string {
	if s == "." || strings.HasPrefix(s, "_") {
		return `"` + s + `"`
	}
	return s
}

func (c migCheckCfg) render(b *strings.Builder, kind string) {
	if !c.Present {
		return
	}
	var body strings.Builder
	migYAMLList(&body, "  ", "use", c.Use)
	migYAMLList(&body, "  ", "except", c.Except)
	migYAMLList(&body, "  ", "ignore", c.Ignore)
	if len(c.IgnoreOnly) > 0 {
		body.WriteString("  ignore_only:\n")
		keys := make([]string, 0, len(c.IgnoreOnly))
		for k := range c.IgnoreOnly {
			keys = append(keys, k)
		}
		sort.Strings(keys)
		for _, k := range keys {
			migYAMLList(&body, "    ", k, c.IgnoreOnly[k])
		}
	}
	if c.EnumZeroValueSuffix != "" {
		fmt.Fprintf(&body, "  enum_zero_value_suffix: %s\n", migYAMLScalar(c.EnumZeroValueSuffix))
	}
	if c.RPCSameReqResp {
		body.WriteString("  rpc_allow_same_request_response: true\n")
	}
	if c.RPCEmptyReq {
		body.WriteString("  rpc_allow_google_protobuf_empty_requests: true\n")
	}
	if c.RPCEmptyResp {
		body.WriteString("  rpc_allow_google_protobuf_empty_responses: true\n")
	}
	if c.ServiceSuffix != "" {
		fmt.Fprintf(&body, "  service_suffix: %s\n", c.ServiceSuffix)
	}
	if c.AllowCommentIgnores {
		body.WriteString("  allow_comment_ignores: true\n")
	}
	if c.IgnoreUnstable {
		body.WriteString("  ignore_unstable_packages: true\n")
	}
	if body.Len() == 0 {
		return
	}
	fmt.Fprintf(b, "%s:\n%s", kind, body.String())
}

func (m *migMod) renderBufYAML() string {
	var b strings.Builder
	fmt.Fprintf(&b, "version: %s\n", m.Version)
	if m.Name != "" {
		fmt.Fprintf(&b, "name: %s\n", m.Name)
	}
	migYAMLList(&b, "", "deps", m.Deps)
	if len(m.Roots) > 0 || len(m.Excludes) > 0 {
		b.WriteString("build:\n")
		migYAMLList(&b, "  ", "roots", m.Roots)
		migYAMLList(&b, "  ", "excludes", m.Excludes)
	}
	m.Lint.render(&b, "lint")
	m.Breaking.render(&b, "breaking")
	return b.String()
}

func (f *migProto) render(ws *migWS, against bool) string {
	var b strings.Builder
	b.WriteString("syntax = \"proto3\";\n\n")
	pkg := f.Pkg
	if against && f.AgPkg != "" {
		pkg = f.AgPkg
	}
	fmt.Fprintf(&b, "package %s;\n\n", pkg)
	for _, i := range f.Imports {
		fmt.Fprintf(&b, "import \"%s\";\n", ws.files[i].RelPath)
	}
	for _, i := range f.Unused {
		fmt.Fprintf(&b, "import \"%s\";\n", ws.files[i].RelPath)
	}
	if f.Empty {
		b.WriteString("import \"google/protobuf/empty.proto\";\n")
	}
	gp := f.GoPkg
	if against && f.AgGoPkg != "" {
		gp = f.AgGoPkg
	}
	if gp != "" {
		fmt.Fprintf(&b, "\noption go_package = \"%s\";\n", gp)
	}
	for _, m := range f.Msgs {
		if m.OnlyAgainst && !against {
			continue
		}
		b.WriteString("\n")
		if m.Comment {
			fmt.Fprintf(&b, "// %s is a message.\n", m.Name)
		}
		if m.IgnoreRule != "" {
			fmt.Fprintf(&b, "// buf:lint:ignore %s\n", m.IgnoreRule)
		}
		fmt.Fprintf(&b, "message %s {\n", m.Name)
		for _, fl := range m.Fields {
			if fl.OnlyAgainst && !against {
				continue
			}
			name, typ, rep := fl.Name, fl.Type, fl.Repeated
			if against {
				if fl.AgName != "" {
					name = fl.AgName
				}
				if fl.AgType != "" {
					typ = fl.AgType
				}
				if fl.AgRepeated {
					rep = !rep
				}
			}
			if fl.Comment {
				fmt.Fprintf(&b, "  // %s is a field.\n", fl.Name)
			}
			if fl.IgnoreRule != "" {
				fmt.Fprintf(&b, "  // buf:lint:ignore %s\n", fl.IgnoreRule)
			}
			lab := ""
			if rep {
				lab = "repeated "
			}
			fmt.Fprintf(&b, "  %s%s %s = %d;\n", lab, typ, name, fl.Num)
		}
		b.WriteString("}\n")
	}
	for _, e := range f.Enums {
		b.WriteString("\n")
		if e.Comment {
			fmt.Fprintf(&b, "// %s is an enum.\n", e.Name)
		}
		fmt.Fprintf(&b, "enum %s {\n", e.Name)
		for _, v := range e.Vals {
			if v.OnlyAgainst && !against {
				continue
			}
			if v.Comment {
				fmt.Fprintf(&b, "  // %s is a value.\n", v.Name)
			}
			fmt.Fprintf(&b, "  %s = %d;\n", v.Name, v.Num)
		}
		b.WriteString("}\n")
	}
	if s := f.Svc; s != nil {
		b.WriteString("\n")
		if s.Comment {
			fmt.Fprintf(&b, "// %s is a service.\n", s.Name)
		}
		fmt.Fprintf(&b, "service %s {\n", s.Name)
		for _, r := range s.RPCs {
			if r.OnlyAgainst && !against {
				continue
			}
			if r.Comment {
				fmt.Fprintf(&b, "  // %s is an rpc.\n", r.Name)
			}
			st := ""
			if r.ServerStream {
				st = "stream "
			}
			fmt.Fprintf(&b, "  rpc %s(%s) returns (%s%s);\n", r.Name, r.Req, st, r.Resp)
		}
		b.WriteString("}\n")
	}
	return b.String()
}

// migRender returns the workspace tree (against=false) or the fixed mutated copy (against=true):
// workspace-relative path -> content.
func (ws *migWS) migRender(against bool) map[string]string {
	out := map[string]string{}
	if ws.Layout == "work" {
		var b strings.Builder
		b.WriteString("version: v1\ndirectories:\n")
		for _, m := range ws.Modules {
			fmt.Fprintf(&b, "  - %s\n", m.Dir)
		}
		out["buf.work.yaml"] = b.String()
	}
	for _, m := range ws.Modules {
		if !m.NoBufYAML {
			out[migJoin(m.Dir, "buf.yaml")] = m.renderBufYAML()
		}
		for _, f := range m.Files {
			out[migJoin(m.Dir, f.Root, f.RelPath)] = f.render(ws, against)
		}
	}
	return out
}
