package c16

import (
	"encoding/json"
	"testing"
)

func replayDoc(t *testing.T, raw json.RawMessage) { t.Skip("round-trip part not built yet") }
