package c16

import (
	"bytes"
	"context"
	"encoding/json"
	"fmt"
	"reflect"
	"regexp"
	"sort"
	"strings"
	"testing"

	"github.com/bufbuild/buf/private/bufpkg/bufconfig"
	"github.com/bufbuild/buf/private/pkg/uuidutil"
	"github.com/bufbuild/bufverif/internal/cfggen"
	"github.com/bufbuild/bufverif/internal/evid"
	"pgregory.net/rapid"
)

// ---------------------------------------------------------------------------------------------
// observations: plain data built from accessors only

type obsCheck struct {
	FileVersion    string              `json:"file_version"`
	Disabled       bool                `json:"disabled"`
	Use            []string            `json:"use"`
	Except         []string            `json:"except"`
	Ignore         []string            `json:"ignore"`
	IgnoreOnly     map[string][]string `json:"ignore_only"`
	DisableBuiltin bool                `json:"disable_builtin"`
}

type obsLint struct {
	obsCheck
	EnumZeroValueSuffix                  string `json:"enum_zero_value_suffix"`
	RPCAllowSameRequestResponse          bool   `json:"rpc_allow_same_request_response"`
	RPCAllowGoogleProtobufEmptyRequests  bool   `json:"rpc_allow_google_protobuf_empty_requests"`
	RPCAllowGoogleProtobufEmptyResponses bool   `json:"rpc_allow_google_protobuf_empty_responses"`
	ServiceSuffix                        string `json:"service_suffix"`
	AllowCommentIgnores                  bool   `json:"allow_comment_ignores"`
}

type obsBreaking struct {
	obsCheck
	IgnoreUnstablePackages bool `json:"ignore_unstable_packages"`
}

type obsModule struct {
	DirPath  string              `json:"dir_path"`
	FullName string              `json:"full_name"`
	Includes map[string][]string `json:"includes"`
	Excludes map[string][]string `json:"excludes"`
	Lint     obsLint             `json:"lint"`
	Breaking obsBreaking         `json:"breaking"`
}

type obsPlugin struct {
	Type    int            `json:"type"`
	Name    string         `json:"name"`
	Args    []string       `json:"args"`
	Ref     string         `json:"ref"`
	Options map[string]any `json:"options"`
}

type obsBufYAML struct {
	FileVersion     string      `json:"file_version"`
	Modules         []obsModule `json:"modules"`
	Deps            []string    `json:"deps"`
	Plugins         []obsPlugin `json:"plugins"`
	IncludeDocsLink bool        `json:"include_docs_link"`
}

func strs(in []string) []string {
	if in == nil {
		return []string{}
	}
	return append([]string{}, in...)
}

func strsMap(in map[string][]string) map[string][]string {
	out := map[string][]string{}
	for k, v := range in {
		out[k] = strs(v)
	}
	return out
}

func observeCheck(c bufconfig.CheckConfig) obsCheck {
	return obsCheck{
		FileVersion:    c.FileVersion().String(),
		Disabled:       c.Disabled(),
		Use:            strs(c.UseIDsAndCategories()),
		Except:         strs(c.ExceptIDsAndCategories()),
		Ignore:         strs(c.IgnorePaths()),
		IgnoreOnly:     strsMap(c.IgnoreIDOrCategoryToPaths()),
		DisableBuiltin: c.DisableBuiltin(),
	}
}

func observeLint(l bufconfig.LintConfig) obsLint {
	return obsLint{
		obsCheck:                             observeCheck(l),
		EnumZeroValueSuffix:                  l.EnumZeroValueSuffix(),
		RPCAllowSameRequestResponse:          l.RPCAllowSameRequestResponse(),
		RPCAllowGoogleProtobufEmptyRequests:  l.RPCAllowGoogleProtobufEmptyRequests(),
		RPCAllowGoogleProtobufEmptyResponses: l.RPCAllowGoogleProtobufEmptyResponses(),
		ServiceSuffix:                        l.ServiceSuffix(),
		AllowCommentIgnores:                  l.AllowCommentIgnores(),
	}
}

func observeBreaking(b bufconfig.BreakingConfig) obsBreaking {
	return obsBreaking{obsCheck: observeCheck(b), IgnoreUnstablePackages: b.IgnoreUnstablePackages()}
}

// normValue makes YAML/JSON decoded option values comparable (numbers as float64).
func normValue(v any) any {
	switch t := v.(type) {
	case int:
		return float64(t)
	case int64:
		return float64(t)
	case uint64:
		return float64(t)
	case float32:
		return float64(t)
	case []any:
		out := make([]any, len(t))
		for i, e := range t {
			out[i] = normValue(e)
		}
		return out
	case map[string]any:
		out := map[string]any{}
		for k, e := range t {
			out[k] = normValue(e)
		}
		return out
	case map[any]any:
		out := map[string]any{}
		for k, e := range t {
			out[fmt.Sprint(k)] = normValue(e)
		}
		return out
	}
	return v
}

func observeBufYAML(f bufconfig.BufYAMLFile) obsBufYAML {
	o := obsBufYAML{FileVersion: f.FileVersion().String(), Modules: []obsModule{}, Deps: []string{}, Plugins: []obsPlugin{}, IncludeDocsLink: f.IncludeDocsLink()}
	for _, m := range f.ModuleConfigs() {
		om := obsModule{
			DirPath:  m.DirPath(),
			Includes: strsMap(m.RootToIncludes()),
			Excludes: strsMap(m.RootToExcludes()),
			Lint:     observeLint(m.LintConfig()),
			Breaking: observeBreaking(m.BreakingConfig()),
		}
		if fn := m.FullName(); fn != nil {
			om.FullName = fn.String()
		}
		o.Modules = append(o.Modules, om)
	}
	for _, r := range f.ConfiguredDepModuleRefs() {
		o.Deps = append(o.Deps, r.String())
	}
	for _, p := range f.PluginConfigs() {
		op := obsPlugin{Type: int(p.Type()), Name: p.Name(), Args: strs(p.Args()), Options: map[string]any{}}
		if r := p.Ref(); r != nil {
			op.Ref = r.String()
		}
		for k, v := range p.Options() {
			op.Options[k] = normValue(v)
		}
		o.Plugins = append(o.Plugins, op)
	}
	return o
}

type obsKey struct {
	FullName string `json:"full_name"`
	Commit   string `json:"commit"`
	Digest   string `json:"digest"`
}

type obsBufLock struct {
	FileVersion string   `json:"file_version"`
	Deps        []obsKey `json:"deps"`
	Plugins     []obsKey `json:"plugins"`
}

func observeBufLock(f bufconfig.BufLockFile) (obsBufLock, error) {
	o := obsBufLock{FileVersion: f.FileVersion().String(), Deps: []obsKey{}, Plugins: []obsKey{}}
	for _, k := range f.DepModuleKeys() {
		d, err := k.Digest()
		if err != nil {
			return o, err
		}
		o.Deps = append(o.Deps, obsKey{FullName: k.FullName().String(), Commit: uuidutil.ToDashless(k.CommitID()), Digest: d.String()})
	}
	for _, k := range f.RemotePluginKeys() {
		d, err := k.Digest()
		if err != nil {
			return o, err
		}
		o.Plugins = append(o.Plugins, obsKey{FullName: k.FullName().String(), Commit: uuidutil.ToDashless(k.CommitID()), Digest: d.String()})
	}
	return o, nil
}

type obsBufWork struct {
	FileVersion string   `json:"file_version"`
	DirPaths    []string `json:"dir_paths"`
}

type obsGenPlugin struct {
	Type           int      `json:"type"`
	Name           string   `json:"name"`
	Out            string   `json:"out"`
	Opt            string   `json:"opt"`
	IncludeImports bool     `json:"include_imports"`
	IncludeWKT     bool     `json:"include_wkt"`
	Strategy       int      `json:"strategy"`
	Path           []string `json:"path"`
	ProtocPath     []string `json:"protoc_path"`
	RemoteHost     string   `json:"remote_host"`
	Revision       int      `json:"revision"`
	IncludeTypes   []string `json:"types"`
	ExcludeTypes   []string `json:"exclude_types"`
}

type obsManagedRule struct {
	Path        string `json:"path"`
	Module      string `json:"module"`
	Field       string `json:"field"`
	FileOption  string `json:"file_option"`
	FieldOption string `json:"field_option"`
	Value       string `json:"value,omitempty"`
}

type obsInput struct {
	Type                string   `json:"type"`
	Location            string   `json:"location"`
	Compression         string   `json:"compression"`
	StripComponents     uint32   `json:"strip_components"`
	SubDir              string   `json:"subdir"`
	Branch              string   `json:"branch"`
	CommitOrTag         string   `json:"commit_or_tag"`
	Ref                 string   `json:"ref"`
	Depth               string   `json:"depth"`
	RecurseSubmodules   bool     `json:"recurse_submodules"`
	IncludePackageFiles bool     `json:"include_package_files"`
	TargetPaths         []string `json:"paths"`
	ExcludePaths        []string `json:"exclude_paths"`
	IncludeTypes        []string `json:"types"`
	ExcludeTypes        []string `json:"exclude_types"`
}

type obsBufGen struct {
	Clean          bool             `json:"clean"`
	Plugins        []obsGenPlugin   `json:"plugins"`
	ManagedEnabled bool             `json:"managed_enabled"`
	Disables       []obsManagedRule `json:"managed_disable"`
	Overrides      []obsManagedRule `json:"managed_override"`
	Inputs         []obsInput       `json:"inputs"`
}

// Names of the managed-mode options by their exported constants, written here from the documented
// list: the observation must not depend on buf's own enum-to-name table (the writer's table).
var fileOptionNames = map[bufconfig.FileOption]string{
	bufconfig.FileOptionUnspecified:                "",
	bufconfig.FileOptionJavaPackage:                "java_package",
	bufconfig.FileOptionJavaPackagePrefix:          "java_package_prefix",
	bufconfig.FileOptionJavaPackageSuffix:          "java_package_suffix",
	bufconfig.FileOptionJavaOuterClassname:         "java_outer_classname",
	bufconfig.FileOptionJavaMultipleFiles:          "java_multiple_files",
	bufconfig.FileOptionJavaStringCheckUtf8:        "java_string_check_utf8",
	bufconfig.FileOptionOptimizeFor:                "optimize_for",
	bufconfig.FileOptionGoPackage:                  "go_package",
	bufconfig.FileOptionGoPackagePrefix:            "go_package_prefix",
	bufconfig.FileOptionCcEnableArenas:             "cc_enable_arenas",
	bufconfig.FileOptionObjcClassPrefix:            "objc_class_prefix",
	bufconfig.FileOptionCsharpNamespace:            "csharp_namespace",
	bufconfig.FileOptionCsharpNamespacePrefix:      "csharp_namespace_prefix",
	bufconfig.FileOptionPhpNamespace:               "php_namespace",
	bufconfig.FileOptionPhpMetadataNamespace:       "php_metadata_namespace",
	bufconfig.FileOptionPhpMetadataNamespaceSuffix: "php_metadata_namespace_suffix",
	bufconfig.FileOptionRubyPackage:                "ruby_package",
	bufconfig.FileOptionRubyPackageSuffix:          "ruby_package_suffix",
}

func fileOptionName(o bufconfig.FileOption) string {
	if n, ok := fileOptionNames[o]; ok {
		return n
	}
	return fmt.Sprintf("file_option#%d", int(o))
}

func fieldOptionName(o bufconfig.FieldOption) string {
	switch o {
	case bufconfig.FieldOptionUnspecified:
		return ""
	case bufconfig.FieldOptionJSType:
		return "jstype"
	}
	return fmt.Sprintf("field_option#%d", int(o))
}

func observeBufGen(f bufconfig.BufGenYAMLFile) obsBufGen {
	g := f.GenerateConfig()
	o := obsBufGen{Clean: g.CleanPluginOuts(), Plugins: []obsGenPlugin{}, Disables: []obsManagedRule{}, Overrides: []obsManagedRule{}, Inputs: []obsInput{}}
	for _, p := range g.GeneratePluginConfigs() {
		o.Plugins = append(o.Plugins, obsGenPlugin{
			Type: int(p.Type()), Name: p.Name(), Out: p.Out(), Opt: p.Opt(), IncludeImports: p.IncludeImports(), IncludeWKT: p.IncludeWKT(),
			Strategy: int(p.Strategy()), Path: strs(p.Path()), ProtocPath: strs(p.ProtocPath()), RemoteHost: p.RemoteHost(), Revision: p.Revision(),
			IncludeTypes: strs(p.IncludeTypes()), ExcludeTypes: strs(p.ExcludeTypes()),
		})
	}
	if m := g.GenerateManagedConfig(); m != nil {
		o.ManagedEnabled = m.Enabled()
		for _, d := range m.Disables() {
			o.Disables = append(o.Disables, obsManagedRule{Path: d.Path(), Module: d.FullName(), Field: d.FieldName(), FileOption: fileOptionName(d.FileOption()), FieldOption: fieldOptionName(d.FieldOption())})
		}
		for _, d := range m.Overrides() {
			o.Overrides = append(o.Overrides, obsManagedRule{Path: d.Path(), Module: d.FullName(), Field: d.FieldName(), FileOption: fileOptionName(d.FileOption()), FieldOption: fieldOptionName(d.FieldOption()),
				Value: fmt.Sprintf("%T:%v", d.Value(), d.Value())})
		}
	}
	for _, in := range f.InputConfigs() {
		oi := obsInput{
			Type: in.Type().String(), Location: in.Location(), Compression: in.Compression(), StripComponents: in.StripComponents(), SubDir: in.SubDir(),
			Branch: in.Branch(), CommitOrTag: in.CommitOrTag(), Ref: in.Ref(), Depth: "unset", RecurseSubmodules: in.RecurseSubmodules(),
			IncludePackageFiles: in.IncludePackageFiles(), TargetPaths: strs(in.TargetPaths()), ExcludePaths: strs(in.ExcludePaths()),
			IncludeTypes: strs(in.IncludeTypes()), ExcludeTypes: strs(in.ExcludeTypes()),
		}
		if d := in.Depth(); d != nil {
			oi.Depth = fmt.Sprint(*d)
		}
		o.Inputs = append(o.Inputs, oi)
	}
	return o
}

// normalizeLegacyGen applies the documented translation of v1/v1beta1 generation templates to the
// observation of the ORIGINAL file: the writer always writes a v2 file, where a local plugin has no
// name of its own (its name is its command line) and a plugin given only by name is written either
// as local `protoc-gen-<name>` or, for protoc's built-in languages when no such binary is on PATH,
// as `protoc_builtin: <name>`. `after` is the observation of the re-read file.
func normalizeLegacyGen(before obsBufGen, after obsBufGen) obsBufGen {
	out := before
	out.Plugins = append([]obsGenPlugin{}, before.Plugins...)
	for i := range out.Plugins {
		p := &out.Plugins[i]
		switch bufconfig.GeneratePluginConfigType(p.Type) {
		case bufconfig.GeneratePluginConfigTypeLocal:
			p.Name = strings.Join(p.Path, " ")
		case bufconfig.GeneratePluginConfigTypeLocalOrProtocBuiltin:
			_, builtin := bufconfig.ProtocProxyPluginNames[p.Name]
			if i < len(after.Plugins) && builtin && bufconfig.GeneratePluginConfigType(after.Plugins[i].Type) == bufconfig.GeneratePluginConfigTypeProtocBuiltin {
				p.Type = int(bufconfig.GeneratePluginConfigTypeProtocBuiltin)
			} else {
				p.Type = int(bufconfig.GeneratePluginConfigTypeLocal)
				p.Name = "protoc-gen-" + p.Name
				p.Path = []string{p.Name}
			}
		}
	}
	return out
}

// ---------------------------------------------------------------------------------------------
// comparison

func toGeneric(v any) any {
	data, err := json.Marshal(v)
	if err != nil {
		panic(err)
	}
	var out any
	if err := json.Unmarshal(data, &out); err != nil {
		panic(err)
	}
	return out
}

// firstDiff returns the path of the first difference between two JSON-like values ("" = equal).
func firstDiff(path string, a, b any) (string, string) {
	switch ta := a.(type) {
	case map[string]any:
		tb, ok := b.(map[string]any)
		if !ok {
			return path, fmt.Sprintf("%v vs %v", a, b)
		}
		keys := map[string]bool{}
		for k := range ta {
			keys[k] = true
		}
		for k := range tb {
			keys[k] = true
		}
		sorted := make([]string, 0, len(keys))
		for k := range keys {
			sorted = append(sorted, k)
		}
		sort.Strings(sorted)
		for _, k := range sorted {
			va, oka := ta[k]
			vb, okb := tb[k]
			p := path + "." + k
			if !oka || !okb {
				return p, fmt.Sprintf("before %s, after %s", present(va, oka), present(vb, okb))
			}
			if dp, dm := firstDiff(p, va, vb); dp != "" {
				return dp, dm
			}
		}
		return "", ""
	case []any:
		tb, ok := b.([]any)
		if !ok {
			return path, fmt.Sprintf("%v vs %v", a, b)
		}
		for i := 0; i < len(ta) && i < len(tb); i++ {
			if dp, dm := firstDiff(fmt.Sprintf("%s[%d]", path, i), ta[i], tb[i]); dp != "" {
				return dp, dm
			}
		}
		if len(ta) != len(tb) {
			return path, fmt.Sprintf("before %d element(s) %v, after %d element(s) %v", len(ta), ta, len(tb), tb)
		}
		return "", ""
	default:
		if !reflect.DeepEqual(a, b) {
			return path, fmt.Sprintf("before %#v, after %#v", a, b)
		}
		return "", ""
	}
}

func present(v any, ok bool) string {
	if !ok {
		return "absent"
	}
	return fmt.Sprintf("%v", v)
}

var indexRE = regexp.MustCompile(`\[\d+\]`)

// classifier turns a diff path such as ".modules[1].lint.ignore_only.ENUM_PASCAL_CASE" into
// "modules.lint.ignore_only".
func classifier(path string) string {
	p := strings.TrimPrefix(indexRE.ReplaceAllString(path, ""), ".")
	parts := strings.Split(p, ".")
	if len(parts) > 3 {
		parts = parts[:3]
	}
	for i, s := range parts {
		if i > 0 && (parts[i-1] == "ignore_only" || parts[i-1] == "options" || parts[i-1] == "includes" || parts[i-1] == "excludes") {
			parts = parts[:i]
			break
		}
		_ = s
	}
	return strings.Join(parts, ".")
}

// ---------------------------------------------------------------------------------------------
// the oracle

type docCase struct {
	Kind     string   `json:"kind"` // "doc"
	Doc      string   `json:"doc"`  // buf.yaml | buf.lock | buf.work.yaml | buf.gen.yaml
	Version  string   `json:"version"`
	FileName string   `json:"file_name"`
	Text     string   `json:"text"`
	Features []string `json:"features,omitempty"`
	// Expect is the reference meaning of a buf.yaml document computed from the generator's model
	// (internal/cfggen/expect.go); nil for the other file kinds.
	Expect *cfggen.Expect `json:"expect,omitempty"`
}

type verdict struct {
	key, msg string
	harness  bool
	info     []string // informational classes
	known    []knownHit
}

func violation(key, format string, args ...any) *verdict {
	return &verdict{key: key, msg: fmt.Sprintf(format, args...)}
}

// readWrite abstracts the four file kinds: read text -> (observation, written text).
type handle struct {
	obs     any
	written string
	topLint bool // buf.yaml: a top-level lint / breaking config exists (not part of the compared observation)
	topBrk  bool
}

func process(ctx context.Context, c docCase, text string) (h handle, readErr error, writeErr error) {
	var buf bytes.Buffer
	switch c.Doc {
	case "buf.yaml":
		f, err := bufconfig.ReadBufYAMLFile(strings.NewReader(text), c.FileName)
		if err != nil {
			return h, err, nil
		}
		h.obs = observeBufYAML(f)
		h.topLint, h.topBrk = f.TopLevelLintConfig() != nil, f.TopLevelBreakingConfig() != nil
		writeErr = bufconfig.WriteBufYAMLFile(&buf, f)
	case "buf.lock":
		f, err := bufconfig.ReadBufLockFile(ctx, strings.NewReader(text), c.FileName)
		if err != nil {
			return h, err, nil
		}
		o, err := observeBufLock(f)
		if err != nil {
			return h, err, nil
		}
		h.obs = o
		writeErr = bufconfig.WriteBufLockFile(&buf, f)
	case "buf.work.yaml":
		f, err := bufconfig.ReadBufWorkYAMLFile(strings.NewReader(text), c.FileName)
		if err != nil {
			return h, err, nil
		}
		h.obs = obsBufWork{FileVersion: f.FileVersion().String(), DirPaths: strs(f.DirPaths())}
		writeErr = bufconfig.WriteBufWorkYAMLFile(&buf, f)
	case "buf.gen.yaml":
		f, err := bufconfig.ReadBufGenYAMLFile(strings.NewReader(text))
		if err != nil {
			return h, err, nil
		}
		h.obs = observeBufGen(f)
		writeErr = bufconfig.WriteBufGenYAMLFile(&buf, f)
	default:
		return h, fmt.Errorf("harness: unknown document kind %q", c.Doc), nil
	}
	h.written = buf.String()
	return h, nil, writeErr
}

// checkDoc: observe(Read(Write(Read(d)))) == observe(Read(d)) and Write is idempotent.
//
// isKnown tells whether a classifier key is an open known finding. A field difference with such a key
// is reported in verdict.known and the field is then blanked on both sides, so the comparison goes on
// to the remaining fields (a listed finding must not hide other differences of the same document).
func checkDoc(ctx context.Context, c docCase, isKnown func(string) bool) *verdict {
	tag := c.Doc + ":" + c.Version
	h1, rerr, werr := process(ctx, c, c.Text)
	if rerr != nil {
		if c.Expect != nil {
			// The document was rendered from a model whose meaning is known (and which the reader accepts
			// on the unchanged tree for every generated shape): a rejection is the reader's fault.
			return violation("reader-rejected:"+tag, "the reader rejects a valid %s document: %v\ndocument:\n%s", tag, rerr, c.Text)
		}
		return &verdict{harness: true, msg: fmt.Sprintf("harness: generated %s document rejected by the reader: %v\n%s", tag, rerr, c.Text)}
	}
	if again, rerr2, _ := process(ctx, c, c.Text); rerr2 != nil {
		return violation("reader-nondeterministic:"+tag, "second read of the same %s text fails: %v\ndocument:\n%s", tag, rerr2, c.Text)
	} else if path, detail := firstDiff("", toGeneric(h1.obs), toGeneric(again.obs)); path != "" {
		return violation("reader-nondeterministic:"+tag, "%s: two reads of the same text differ at %s: %s\ndocument:\n%s", tag, path, detail, c.Text)
	}
	if c.Expect != nil {
		o := h1.obs.(obsBufYAML)
		want := toGeneric(map[string]any{"modules": c.Expect.Modules, "deps": c.Expect.Deps})
		got := toGeneric(map[string]any{"modules": o.Modules, "deps": o.Deps})
		if path, detail := firstDiff("", want, got); path != "" {
			return violation("reader:"+tag+":"+classifier(path),
				"%s: the configuration read differs from what the document says at %s (before = reference meaning, after = buf): %s\ndocument:\n%s", tag, path, detail, c.Text)
		}
	}
	if werr != nil {
		return violation("write-failed:"+tag, "a %s document the reader accepts cannot be written back: %v\ndocument:\n%s", tag, werr, c.Text)
	}
	h2, rerr, werr := process(ctx, c, h1.written)
	if rerr != nil {
		return violation("reread-failed:"+tag, "the file written for a valid %s document is rejected by the reader: %v\ndocument:\n%s\nwritten:\n%s", tag, rerr, c.Text, h1.written)
	}
	v := &verdict{}
	if h1.topLint != h2.topLint || h1.topBrk != h2.topBrk {
		// Not asserted: the statement is about the effective per-module settings; the writer hoists or
		// splits sections on purpose. Counted so that the frequency is visible in the evidence.
		v.info = append(v.info, "info:"+tag+":top-level-section-presence-changes")
	}
	before, after := h1.obs, h2.obs
	if c.Doc == "buf.gen.yaml" && c.Version != "v2" {
		before = normalizeLegacyGen(h1.obs.(obsBufGen), h2.obs.(obsBufGen))
	}
	gb, ga := toGeneric(before), toGeneric(after)
	for round := 0; ; round++ {
		path, detail := firstDiff("", gb, ga)
		if path == "" {
			break
		}
		class := classifier(path)
		key := "roundtrip:" + tag + ":" + class
		msg := fmt.Sprintf("%s: field %s differs after write+read: %s\ndocument:\n%s\nwritten:\n%s", tag, path, detail, c.Text, h1.written)
		parts := strings.Split(class, ".")
		if round < 8 && isKnown != nil && isKnown(key) && len(parts) == 2 {
			v.known = append(v.known, knownHit{key: key, msg: msg})
			blankField(gb, parts[0], parts[1])
			blankField(ga, parts[0], parts[1])
			continue
		}
		v.key, v.msg = key, msg
		return v
	}
	if werr != nil {
		v.key, v.msg = "write-failed:"+tag, fmt.Sprintf("second write of %s failed: %v\ndocument:\n%s\nfirst written:\n%s", tag, werr, c.Text, h1.written)
		return v
	}
	if h2.written != h1.written {
		v.key = "write-not-idempotent:" + tag
		v.msg = fmt.Sprintf("%s: Write(Read(Write(Read(d)))) differs from Write(Read(d))\ndocument:\n%s\nfirst:\n%s\nsecond:\n%s", tag, c.Text, h1.written, h2.written)
	}
	return v
}

type knownHit struct{ key, msg string }

// blankField removes `field` from every element of the top-level list `list`.
func blankField(tree any, list, field string) {
	m, ok := tree.(map[string]any)
	if !ok {
		return
	}
	l, ok := m[list].([]any)
	if !ok {
		return
	}
	for _, e := range l {
		if em, ok := e.(map[string]any); ok {
			delete(em, field)
		}
	}
}

// report hands the verdict of one document to the recorder.
func reportDoc(t evid.TB, r *evid.Recorder, v *verdict, c docCase) {
	if v == nil {
		return
	}
	if v.harness {
		t.Fatalf("%s", v.msg)
		return
	}
	for _, i := range v.info {
		r.Class(i)
	}
	for _, k := range v.known {
		// open known finding: counted, does not fail the test
		if !r.Fail(t, k.key, k.msg, c) {
			return
		}
	}
	if v.key != "" {
		r.Fail(t, v.key, v.msg, c)
	}
}

// ---------------------------------------------------------------------------------------------
// tests

func runDocs(t *testing.T, salt int, quick, thorough int, gen func(*rapid.T) cfggen.Doc) {
	r := evid.R()
	ctx := context.Background()
	r.Check(t, r.Scale(quick, thorough), salt, func(t *rapid.T) {
		d := gen(t)
		c := docCase{Kind: "doc", Doc: d.Kind, Version: d.Version, FileName: d.FileName, Text: d.Text, Features: d.Features, Expect: d.Expect}
		r.Eval()
		r.Class(d.Kind + ":" + d.Version)
		seen := map[string]bool{}
		for _, f := range d.Features {
			if !seen[f] {
				seen[f] = true
				r.Class(d.Kind + ":" + f)
			}
		}
		if d.NonTrivial {
			r.NonTrivial(d.Kind + "\x00" + d.Text)
			r.Sample(map[string]any{"kind": d.Kind, "version": d.Version, "text": d.Text})
		}
		reportDoc(t, r, checkDoc(ctx, c, r.IsKnown), c)
	})
}

func TestRoundTripBufYAML(t *testing.T) { runDocs(t, 1, 2400, 140000, cfggen.GenBufYAML) }
func TestRoundTripBufLock(t *testing.T) { runDocs(t, 2, 600, 28000, cfggen.GenBufLock) }
func TestRoundTripBufWork(t *testing.T) { runDocs(t, 3, 300, 7000, cfggen.GenBufWork) }
func TestRoundTripBufGen(t *testing.T)  { runDocs(t, 4, 1500, 70000, cfggen.GenBufGen) }

func replayDoc(t *testing.T, raw json.RawMessage) {
	var c docCase
	if err := json.Unmarshal(raw, &c); err != nil {
		t.Fatalf("harness: replay case: %v", err)
	}
	r := evid.R()
	r.Eval()
	reportDoc(t, r, checkDoc(context.Background(), c, r.IsKnown), c)
}

// TestKnownFindings: one minimal directed document per listed finding of the round-trip part, so that a
// finding that is still present is reported on every run (and silently stops being reported once fixed).
func TestKnownFindings(t *testing.T) {
	r := evid.R()
	defer r.Begin(t)()
	if !r.Mine(0) {
		return
	}
	for _, text := range []string{
		"version: v2\nplugins:\n  - local: protoc-gen-go\n    out: gen\n    types:\n      - foo.Bar\n",
		"version: v2\nplugins:\n  - local: protoc-gen-go\n    out: gen\n    exclude_types:\n      - foo.Baz\n",
		"version: v2\nplugins:\n  - local: protoc-gen-go\n    out: gen\ninputs:\n  - directory: proto\n    exclude_types:\n      - foo.Baz\n",
	} {
		c := docCase{Kind: "doc", Doc: "buf.gen.yaml", Version: "v2", FileName: "buf.gen.yaml", Text: text}
		r.Eval()
		r.Class("directed-known-finding-regression")
		reportDoc(t, r, checkDoc(context.Background(), c, r.IsKnown), c)
	}
}
