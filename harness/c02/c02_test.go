// C02 — outputs are deterministic and independent of scheduling and enumeration order.
//
// Metamorphic oracle: every output observed under the baseline configuration
// pi0 = (GOMAXPROCS 1, parallelism 1, no dispatch perturbation, sorted Walk, arguments as given)
// must be byte-identical under every drawn perturbation pi = (GOMAXPROCS, thread parallelism,
// yield/delay table at job dispatch (hook), permuted storage Walk order, permuted module / path /
// rule / type argument order), and under plain repetition.
package c02

import (
	"bytes"
	"context"
	"fmt"
	"os"
	"path/filepath"
	"runtime"
	"sort"
	"strings"
	"sync/atomic"
	"testing"
	"time"

	"github.com/bufbuild/buf/private/buf/bufformat"
	"github.com/bufbuild/buf/private/bufpkg/bufimage"
	"github.com/bufbuild/buf/private/bufpkg/bufimage/bufimageutil"
	"github.com/bufbuild/buf/private/bufpkg/bufmodule"
	"github.com/bufbuild/buf/private/pkg/protoencoding"
	"github.com/bufbuild/buf/private/pkg/storage"
	"github.com/bufbuild/buf/private/pkg/thread"
	"github.com/bufbuild/bufverif/internal/bufcli"
	"github.com/bufbuild/bufverif/internal/bufx"
	"github.com/bufbuild/bufverif/internal/checkx"
	"github.com/bufbuild/bufverif/internal/evid"
	"github.com/bufbuild/bufverif/internal/protogen"
	"pgregory.net/rapid"
)

func TestMain(m *testing.M) { evid.Main(m, "C02") }

type Mod struct {
	Dir  string `json:"dir"`
	Name string `json:"name,omitempty"`
}

// Pi is one perturbation.
type Pi struct {
	GoMaxProcs  int   `json:"gomaxprocs"`
	Parallelism int   `json:"parallelism"`
	Dispatch    []int `json:"dispatch"`     // per dispatched job: 0 none, 1 Gosched, n>1 sleep n microseconds
	WalkSeed    int   `json:"walk_seed"`    // 0 = sorted; else permutation seed for every Walk
	ArgSeed     int   `json:"arg_seed"`     // 0 = as given; else permutation seed for module/rule/type/path argument lists
	Repeat      int   `json:"repeat"`       // number of repetitions under this pi
}

// Case is the replayable input.
type Case struct {
	Mods     []Mod                        `json:"modules"`
	Files    map[string]map[string]string `json:"files"`
	OldFiles map[string]map[string]string `json:"old_files"` // for breaking
	OldMods  []Mod                        `json:"old_modules"`
	LintUse  []string                     `json:"lint_use"`
	Types    []string                     `json:"types"` // include types for FilterImage
	Pis      []Pi                         `json:"pis"`
}

// ---------------------------------------------------------------------------------------------
// perturbation plumbing

// shuffleBucket permutes the order in which Walk visits objects.
type shuffleBucket struct {
	storage.ReadBucket
	seed int
}

func (s shuffleBucket) Walk(ctx context.Context, prefix string, f func(storage.ObjectInfo) error) error {
	var infos []storage.ObjectInfo
	if err := s.ReadBucket.Walk(ctx, prefix, func(oi storage.ObjectInfo) error {
		infos = append(infos, oi)
		return nil
	}); err != nil {
		return err
	}
	permute(len(infos), s.seed, func(i, j int) { infos[i], infos[j] = infos[j], infos[i] })
	for _, oi := range infos {
		if err := f(oi); err != nil {
			return err
		}
	}
	return nil
}

// permute is a deterministic Fisher-Yates driven by a small LCG (no math/rand: the permutation is part of the case).
func permute(n, seed int, swap func(i, j int)) {
	if seed == 0 {
		return
	}
	x := uint64(seed)*6364136223846793005 + 1442695040888963407
	for i := n - 1; i > 0; i-- {
		x = x*6364136223846793005 + 1442695040888963407
		j := int((x >> 33) % uint64(i+1))
		swap(i, j)
	}
}

func permuted(in []string, seed int) []string {
	out := append([]string{}, in...)
	permute(len(out), seed, func(i, j int) { out[i], out[j] = out[j], out[i] })
	return out
}

func withPi(pi Pi, fn func()) {
	oldProcs := runtime.GOMAXPROCS(pi.GoMaxProcs)
	oldPar := thread.Parallelism()
	thread.SetParallelism(pi.Parallelism)
	var idx atomic.Int64
	if len(pi.Dispatch) > 0 {
		table := pi.Dispatch
		thread.SetVerifDispatchHook(func() {
			i := int(idx.Add(1) - 1)
			switch a := table[i%len(table)]; {
			case a == 1:
				runtime.Gosched()
			case a > 1:
				time.Sleep(time.Duration(a) * time.Microsecond)
			}
		})
	}
	defer func() {
		thread.SetVerifDispatchHook(nil)
		thread.SetParallelism(oldPar)
		runtime.GOMAXPROCS(oldProcs)
	}()
	fn()
}

// ---------------------------------------------------------------------------------------------
// observation

func moduleSet(ctx context.Context, ms []Mod, files map[string]map[string]string, pi Pi) (bufmodule.ModuleSet, error) {
	ws := &protogen.Workspace{}
	var order []string
	for _, m := range ms {
		ws.Modules = append(ws.Modules, &protogen.Module{Dir: m.Dir, Name: m.Name})
		order = append(order, m.Dir)
	}
	order = permuted(order, pi.ArgSeed)
	var wrap bufx.WrapBucket
	if pi.WalkSeed != 0 {
		wrap = func(dir string, b storage.ReadBucket) storage.ReadBucket { return shuffleBucket{b, pi.WalkSeed + len(dir)} }
	}
	return bufx.ModuleSet(ctx, ws, files, nil, order, wrap)
}

func wire(img bufimage.Image) ([]byte, error) {
	pi, err := bufimage.ImageToProtoImage(img)
	if err != nil {
		return nil, err
	}
	return protoencoding.NewWireMarshaler().Marshal(pi)
}

func errString(err error) string {
	if err == nil {
		return ""
	}
	anns, other := bufx.Annotations(err)
	if other != nil {
		return "error: " + other.Error()
	}
	var b strings.Builder
	for _, a := range anns {
		b.WriteString(a.String() + "\n")
	}
	return b.String()
}

// observe computes every output under pi. Keys are output names.
func observe(ctx context.Context, c *Case, pi Pi) map[string]string {
	out := map[string]string{}
	withPi(pi, func() {
		ms, err := moduleSet(ctx, c.Mods, c.Files, pi)
		if err != nil {
			out["module-set"] = "error: " + err.Error()
			return
		}
		img, err := bufimage.BuildImage(ctx, bufx.Logger, bufmodule.ModuleSetToModuleReadBucketWithOnlyProtoFiles(ms))
		if err != nil {
			out["image"] = errString(err)
			return
		}
		data, err := wire(img)
		if err != nil {
			out["image"] = "error: " + err.Error()
			return
		}
		out["image"] = string(data)
		// lint with the rule list in permuted order
		lintCfg, err := checkx.LintConfig("v2", permuted(c.LintUse, pi.ArgSeed), nil, nil, nil, checkx.LintOptions{})
		if err == nil {
			cl, _ := checkx.Client()
			out["lint"] = errString(cl.Lint(ctx, lintCfg, img))
		}
		// breaking against the old version
		if c.OldFiles != nil {
			oms, err := moduleSet(ctx, c.OldMods, c.OldFiles, pi)
			if err == nil {
				oimg, err := bufimage.BuildImage(ctx, bufx.Logger, bufmodule.ModuleSetToModuleReadBucketWithOnlyProtoFiles(oms))
				if err == nil {
					bcfg, _ := checkx.BreakingConfig("v2", permuted([]string{"FILE", "WIRE_JSON", "PACKAGE"}, pi.ArgSeed), nil, nil, nil, false)
					cl, _ := checkx.Client()
					out["breaking"] = errString(cl.Breaking(ctx, bcfg, img, oimg))
					// and the other way round: what the edits deleted shows up as deleted
					out["breaking-reverse"] = errString(cl.Breaking(ctx, bcfg, oimg, img))
				}
			}
		}
		// digests and dependency graph
		var dig []string
		for _, m := range ms.Modules() {
			d, err := m.Digest(bufmodule.DigestTypeB5)
			if err != nil {
				dig = append(dig, m.OpaqueID()+"=error")
			} else {
				dig = append(dig, m.OpaqueID()+"="+d.String())
			}
		}
		out["digests"] = strings.Join(dig, "\n")
		if dag, err := bufmodule.ModuleSetToDAG(ms); err == nil {
			dot, err := dag.DOTString(func(m bufmodule.Module) string { return m.OpaqueID() })
			if err == nil {
				out["dep-graph"] = dot
			}
		} else {
			out["dep-graph"] = "error"
		}
		// ls-files style listing and per-directory split
		var ls []string
		for _, f := range img.Files() {
			ls = append(ls, fmt.Sprintf("%s import=%v", f.Path(), f.IsImport()))
		}
		out["ls-files"] = strings.Join(ls, "\n")
		if byDir, err := bufimage.ImageByDir(img); err == nil {
			var b strings.Builder
			for _, di := range byDir {
				for _, f := range di.Files() {
					fmt.Fprintf(&b, "%s import=%v;", f.Path(), f.IsImport())
				}
				b.WriteString("\n")
			}
			out["image-by-dir"] = b.String()
		}
		// format
		if fb, err := bufformat.FormatModuleSet(ctx, ms); err == nil {
			var paths []string
			_ = fb.Walk(ctx, "", func(oi storage.ObjectInfo) error { paths = append(paths, oi.Path()); return nil })
			sort.Strings(paths)
			var b bytes.Buffer
			for _, p := range paths {
				data, err := storage.ReadPath(ctx, fb, p)
				if err == nil {
					fmt.Fprintf(&b, "== %s\n%s", p, data)
				}
			}
			out["format"] = b.String()
		} else {
			out["format"] = "error: " + err.Error()
		}
		// format diff, the way `buf format -d` computes it
		orig := bufmodule.ModuleReadBucketToStorageReadBucket(bufmodule.ModuleSetToModuleReadBucketWithOnlyProtoFiles(ms))
		if fb, err := bufformat.FormatBucket(ctx, orig); err == nil {
			var b bytes.Buffer
			changed, err := storage.DiffWithFilenames(ctx, &b, orig, fb, storage.DiffWithExternalPaths(), storage.DiffWithSuppressTimestamps())
			if err != nil {
				out["format-diff"] = "error: " + err.Error()
			} else {
				out["format-diff"] = strings.Join(changed, ",") + "\n" + b.String()
			}
		}
		// type filter (the CHANGELOG records nondeterministic import ordering with --type)
		if len(c.Types) > 0 {
			func() {
				// a crash of the filter is an outcome like any other here (whether it may crash is C12's subject):
				// what matters is that the outcome is the same under every schedule and order
				defer func() {
					if p := recover(); p != nil {
						out["filter"] = fmt.Sprintf("panic: %v", p)
					}
				}()
				fimg, err := bufimageutil.FilterImage(img, bufimageutil.WithIncludeTypes(permuted(c.Types, pi.ArgSeed)...))
				if err != nil {
					out["filter"] = "error: " + err.Error()
				} else if data, err := wire(fimg); err == nil {
					out["filter"] = string(data)
				}
			}()
		}
	})
	return out
}

var pi0 = Pi{GoMaxProcs: 1, Parallelism: 1, Repeat: 1}

func differsIn(p Pi) int {
	n := 0
	if p.GoMaxProcs != 1 {
		n++
	}
	if p.Parallelism != 1 {
		n++
	}
	if len(p.Dispatch) > 0 {
		n++
	}
	if p.WalkSeed != 0 {
		n++
	}
	if p.ArgSeed != 0 {
		n++
	}
	return n
}

func run(ctx context.Context, t interface {
	Fatalf(string, ...any)
	Helper()
}, r *evid.Recorder, c *Case) {
	base := observe(ctx, c, pi0)
	r.Eval()
	if strings.HasPrefix(base["image"], "error") || base["module-set"] != "" {
		t.Fatalf("harness: baseline does not build: %v %v", base["module-set"], base["image"][:min(len(base["image"]), 300)])
	}
	nfiles := 0
	for _, fs := range c.Files {
		nfiles += len(fs)
	}
	for _, pi := range c.Pis {
		for rep := 0; rep < pi.Repeat; rep++ {
			got := observe(ctx, c, pi)
			r.Eval()
			for name, want := range base {
				if got[name] != want {
					r.Fail(t, "nondeterministic:"+name, fmt.Sprintf("output %q differs under %+v (repetition %d): baseline %q..., got %q...", name, pi, rep, firstDiff(want, got[name]), firstDiff(got[name], want)), c)
					return
				}
			}
			for name := range got {
				if _, ok := base[name]; !ok {
					r.Fail(t, "nondeterministic:"+name, fmt.Sprintf("output %q exists only under %+v", name, pi), c)
					return
				}
			}
		}
		r.Class(fmt.Sprintf("pi-differs-in-%d", differsIn(pi)))
		if nfiles >= 4 && differsIn(pi) >= 2 {
			r.NonTrivial(fmt.Sprintf("%v|%+v", c.Files, pi))
		}
	}
	if strings.Contains(base["lint"], "PACKAGE_NO_IMPORT_CYCLE") {
		r.Class("has-package-import-cycle")
	}
	if base["dep-graph"] == "error" {
		r.Class("has-module-cycle")
	}
	r.Sample(map[string]any{"files": nfiles, "pis": c.Pis, "outputs": keys(base)})
}

func keys(m map[string]string) []string {
	var out []string
	for k := range m {
		out = append(out, k)
	}
	sort.Strings(out)
	return out
}

func firstDiff(a, b string) string {
	i := 0
	for i < len(a) && i < len(b) && a[i] == b[i] {
		i++
	}
	lo := i - 60
	if lo < 0 {
		lo = 0
	}
	hi := i + 100
	if hi > len(a) {
		hi = len(a)
	}
	return a[lo:hi]
}

// ---------------------------------------------------------------------------------------------
// generation

func genPi(t *rapid.T) Pi {
	p := Pi{
		GoMaxProcs:  []int{1, 2, 4, 16}[rapid.IntRange(0, 3).Draw(t, "procs")],
		Parallelism: []int{1, 2, 3, 16}[rapid.IntRange(0, 3).Draw(t, "par")],
		Repeat:      1,
	}
	if rapid.Bool().Draw(t, "dispatch") {
		n := rapid.IntRange(1, 12).Draw(t, "ndispatch")
		for i := 0; i < n; i++ {
			p.Dispatch = append(p.Dispatch, []int{0, 1, 1, 20, 150, 600}[rapid.IntRange(0, 5).Draw(t, "d")])
		}
	}
	if rapid.Bool().Draw(t, "walk") {
		p.WalkSeed = rapid.IntRange(1, 1<<20).Draw(t, "walkseed")
	}
	if rapid.Bool().Draw(t, "args") {
		p.ArgSeed = rapid.IntRange(1, 1<<20).Draw(t, "argseed")
	}
	return p
}

func genCase(t *rapid.T, thorough bool) *Case {
	cfg := protogen.DefaultConfig()
	cfg.PackageCycles = true
	cfg.SharedDirs = true
	cfg.CustomOptions = rapid.Bool().Draw(t, "customopts")
	cfg.MaxFiles, cfg.MaxPackages = 8, 5
	if thorough {
		cfg.MaxFiles, cfg.MaxPackages, cfg.MaxModules = 14, 7, 5
	}
	ws := protogen.GenWorkspace(t, cfg)
	c := &Case{Files: ws.Render().ByModule}
	for _, m := range ws.Modules {
		c.Mods = append(c.Mods, Mod{m.Dir, m.Name})
	}
	// an edited copy as the "old" version for breaking
	old := ws.Clone()
	ed := protogen.NewEditor(t)
	for i := 0; i < rapid.IntRange(1, 3).Draw(t, "edits"); i++ {
		ed.ApplyBreaking(old)
	}
	c.OldFiles = old.Render().ByModule
	for _, m := range old.Modules {
		c.OldMods = append(c.OldMods, Mod{m.Dir, m.Name})
	}
	if _, err := bufx.BuildImage(context.Background(), old, c.OldFiles); err != nil {
		c.OldFiles, c.OldMods = nil, nil
	}
	c.LintUse = []string{"STANDARD", "COMMENTS", "UNARY_RPC", "PACKAGE_NO_IMPORT_CYCLE", "STABLE_PACKAGE_NO_IMPORT_UNSTABLE"}
	// include types: a few message names
	var names []string
	for _, f := range ws.AllFiles() {
		if f.Package == "options.v1" {
			// option extensions by name: including one pulls in its extendee and payload types
			for _, x := range f.Extensions {
				names = append(names, "options.v1."+x.Name)
			}
			continue
		}
		f.WalkMessages(func(m protogen.MsgRef) {
			names = append(names, m.Full)
		})
		f.WalkEnums(func(er protogen.EnumRef) {
			names = append(names, er.Full)
		})
		for _, sv := range f.Services {
			names = append(names, protogen.FullName(f.Package, sv.Name))
		}
	}
	for i := 0; i < rapid.IntRange(0, 6).Draw(t, "ntypes") && len(names) > 0; i++ {
		c.Types = append(c.Types, names[rapid.IntRange(0, len(names)-1).Draw(t, "type")])
	}
	sort.Strings(c.Types)
	c.Types = uniq(c.Types)
	n := 4
	if thorough {
		n = 8
	}
	c.Pis = append(c.Pis, Pi{GoMaxProcs: 1, Parallelism: 1, Repeat: 2}) // plain repetition: map-iteration nondeterminism
	for i := 0; i < n; i++ {
		c.Pis = append(c.Pis, genPi(t))
	}
	return c
}

func uniq(in []string) []string {
	var out []string
	for i, s := range in {
		if i == 0 || s != in[i-1] {
			out = append(out, s)
		}
	}
	return out
}

func TestDeterminism(t *testing.T) {
	r := evid.R()
	ctx := context.Background()
	r.Check(t, r.Scale(160, 1000), 1, func(t *rapid.T) {
		run(ctx, t, r, genCase(t, r.Thorough()))
	})
}

// TestCLIDeterminism runs whole commands in-process under perturbed schedules and permuted flag order.
func TestCLIDeterminism(t *testing.T) {
	r := evid.R()
	ctx := context.Background()
	r.Check(t, r.Scale(24, 160), 2, func(t *rapid.T) {
		c := genCase(t, false)
		tmp, err := os.MkdirTemp("", "c02-")
		if err != nil {
			t.Fatalf("harness: %v", err)
		}
		defer os.RemoveAll(tmp)
		var y strings.Builder
		y.WriteString("version: v2\nmodules:\n")
		var paths []string
		for _, m := range c.Mods {
			fmt.Fprintf(&y, "  - path: %s\n", m.Dir)
			if m.Name != "" {
				fmt.Fprintf(&y, "    name: %s\n", m.Name)
			}
			for p, txt := range c.Files[m.Dir] {
				full := filepath.Join(tmp, filepath.FromSlash(m.Dir), filepath.FromSlash(p))
				_ = os.MkdirAll(filepath.Dir(full), 0o755)
				if err := os.WriteFile(full, []byte(txt), 0o644); err != nil {
					t.Fatalf("harness: %v", err)
				}
				paths = append(paths, full)
			}
		}
		y.WriteString("lint:\n  use:\n    - STANDARD\n    - COMMENTS\n")
		if err := os.WriteFile(filepath.Join(tmp, "buf.yaml"), []byte(y.String()), 0o644); err != nil {
			t.Fatalf("harness: %v", err)
		}
		sort.Strings(paths)
		env := map[string]string{"HOME": tmp, "BUF_CACHE_DIR": filepath.Join(tmp, ".cache"), "PATH": os.Getenv("PATH")}
		sel := paths
		if len(sel) > 3 {
			sel = sel[:3]
		}
		cmds := func(pi Pi) [][]string {
			var pathFlags []string
			for _, p := range permuted(sel, pi.ArgSeed) {
				pathFlags = append(pathFlags, "--path", p)
			}
			return [][]string{
				{"build", tmp, "-o", "-"},
				append([]string{"build", tmp, "-o", "-"}, pathFlags...),
				{"lint", tmp, "--error-format=json"},
				{"lint", tmp, "--error-format=config-ignore-yaml"},
				{"lint", tmp, "--error-format=junit"},
				{"ls-files", tmp, "--include-imports"},
				{"format", tmp, "-d"},
				{"dep", "graph", tmp},
			}
		}
		obs := func(pi Pi) []string {
			var out []string
			withPi(pi, func() {
				for _, args := range cmds(pi) {
					code, stdout, stderr := bufcli.Run(ctx, env, "", args...)
					out = append(out, fmt.Sprintf("exit=%d\n%s\n--stderr--\n%s", code, stripDiffTimes(stdout), stderr))
				}
			})
			return out
		}
		base := obs(pi0)
		r.Eval()
		for _, pi := range c.Pis {
			got := obs(pi)
			r.Eval()
			for i := range base {
				if got[i] != base[i] {
					r.Fail(t, "nondeterministic:cli:"+strings.Join(cmds(pi0)[i][:1], "")+formatSuffix(cmds(pi0)[i]), fmt.Sprintf("`buf %s` differs under %+v: baseline ...%q..., got ...%q...", strings.Join(cmds(pi0)[i], " "), pi, firstDiff(base[i], got[i]), firstDiff(got[i], base[i])), c)
					return
				}
			}
			if differsIn(pi) >= 2 {
				r.NonTrivial(fmt.Sprintf("cli|%v|%+v", c.Files, pi))
			}
		}
		r.Class("cli-case")
	})
}

// formatSuffix names the --error-format of a command line in a violation key ("" for json / none).
func formatSuffix(args []string) string {
	for _, a := range args {
		if strings.HasPrefix(a, "--error-format=") && a != "--error-format=json" {
			return ":" + strings.TrimPrefix(a, "--error-format=")
		}
	}
	return ""
}

// stripDiffTimes removes the wall-clock timestamps of unified-diff headers (`--- a.orig\t<time>`).
func stripDiffTimes(s string) string {
	lines := strings.Split(s, "\n")
	for i, l := range lines {
		if strings.HasPrefix(l, "--- ") || strings.HasPrefix(l, "+++ ") {
			if j := strings.IndexByte(l, '\t'); j >= 0 {
				lines[i] = l[:j]
			}
		}
	}
	return strings.Join(lines, "\n")
}

func TestReplay(t *testing.T) {
	var c Case
	ok, err := evid.ReplayCase(&c)
	if !ok {
		t.Skip("no VERIF_REPLAY")
	}
	if err != nil {
		t.Fatal(err)
	}
	r := evid.R()
	defer r.Begin(t)()
	// schedule-dependent failures may need several attempts: repeat the whole comparison
	for i := 0; i < 20; i++ {
		run(context.Background(), t, r, &c)
	}
}
