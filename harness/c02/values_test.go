package c02

// Breaking output on value-level cases (deleted fields / aliased enum numbers with partial reservations, number
// sets that lose values, changed defaults): the annotation texts - which quote sets of names and ranges - must
// be identical run after run and under perturbed schedules.

import (
	"context"
	"testing"

	"github.com/bufbuild/bufverif/internal/evid"
	"github.com/bufbuild/bufverif/internal/protogen"
	"pgregory.net/rapid"
)

func TestValueCaseDeterminism(t *testing.T) {
	r := evid.R()
	ctx := context.Background()
	r.Check(t, r.Scale(80, 2000), 4, func(t *rapid.T) {
		var path, old, cur, kind string
		switch rapid.IntRange(0, 3).Draw(t, "valuekind") {
		case 0, 1:
			d := protogen.GenDeleteCase(t)
			path, old, cur, kind = d.Path, d.Old, d.New, d.Kind
		case 2:
			v := protogen.GenRangeCase(t, true)
			path, old, cur, kind = v.Path, v.Old, v.New, v.Kind
		default:
			v := protogen.GenReservedNamesCase(t, true)
			path, old, cur, kind = v.Path, v.Old, v.New, v.Kind
		}
		c := &Case{
			Mods: []Mod{{Dir: "m"}}, OldMods: []Mod{{Dir: "m"}},
			Files:    map[string]map[string]string{"m": {path: cur}},
			OldFiles: map[string]map[string]string{"m": {path: old}},
			LintUse:  []string{"MINIMAL"},
		}
		c.Pis = append(c.Pis, Pi{GoMaxProcs: 1, Parallelism: 1, Repeat: 5}, genPi(t))
		run(ctx, t, r, c)
		r.Class("value-case:" + kind)
	})
}
