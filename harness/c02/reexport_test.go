package c02

// Re-export structures: leaf files, a file that `import public`s several of them, and a user file that reaches
// the leaves only through that re-exporter. Filtering the image by a type of the user file drops the
// re-exporter and has to add the leaves as direct dependencies - in the same order run after run.

import (
	"context"
	"fmt"
	"strings"
	"testing"

	"github.com/bufbuild/bufverif/internal/evid"
	"pgregory.net/rapid"
)

func genReexportCase(t *rapid.T) *Case {
	nLeaf := rapid.IntRange(2, 6).Draw(t, "leaves")
	files := map[string]string{}
	leaf := func(i int) string { return fmt.Sprintf("reexp/v1/leaf_%c.proto", 'a'+i) }
	// leaves are named so that alphabetical order and declaration order differ
	order := rapid.Permutation(seq(nLeaf)).Draw(t, "leaforder")
	for i := 0; i < nLeaf; i++ {
		files[leaf(i)] = fmt.Sprintf("syntax = \"proto3\";\n\npackage reexp.v1;\n\nmessage Leaf%d {\n  string v = 1;\n}\n", i)
	}
	// the re-exporter: public imports of a subset (>= 2), plain imports of some others, one own message
	var re strings.Builder
	re.WriteString("syntax = \"proto3\";\n\npackage reexp.v1;\n\n")
	public := map[int]bool{}
	for _, i := range order {
		switch rapid.IntRange(0, 3).Draw(t, "reimport") {
		case 0:
		case 1:
			fmt.Fprintf(&re, "import \"%s\";\n", leaf(i))
		default:
			fmt.Fprintf(&re, "import public \"%s\";\n", leaf(i))
			public[i] = true
		}
	}
	re.WriteString("\nmessage Hub {\n  string v = 1;\n}\n")
	files["reexp/v1/hub.proto"] = re.String()
	// the user: imports the hub (and maybe a few leaves directly, used or not); its messages use leaves through the hub
	var us strings.Builder
	us.WriteString("syntax = \"proto3\";\n\npackage reexp.v1;\n\n")
	direct := map[int]bool{}
	var imports []string
	imports = append(imports, "reexp/v1/hub.proto")
	for _, i := range order {
		if !public[i] && rapid.IntRange(0, 2).Draw(t, "directimport") == 0 {
			direct[i] = true
			imports = append(imports, leaf(i))
		}
	}
	imports = rapid.Permutation(imports).Draw(t, "userimports")
	for _, p := range imports {
		fmt.Fprintf(&us, "import \"%s\";\n", p)
	}
	nMsg := rapid.IntRange(1, 3).Draw(t, "usermsgs")
	var types []string
	for m := 0; m < nMsg; m++ {
		fmt.Fprintf(&us, "\nmessage User%d {\n", m)
		n := 1
		for _, i := range order {
			if (public[i] || direct[i]) && rapid.Bool().Draw(t, "use") {
				fmt.Fprintf(&us, "  Leaf%d l%d = %d;\n", i, i, n)
				n++
			}
		}
		if rapid.IntRange(0, 3).Draw(t, "usehub") == 0 {
			fmt.Fprintf(&us, "  Hub hub = %d;\n", n)
		}
		us.WriteString("}\n")
		if m == 0 || rapid.Bool().Draw(t, "includetype") {
			types = append(types, fmt.Sprintf("reexp.v1.User%d", m))
		}
	}
	files["reexp/v1/user.proto"] = us.String()
	c := &Case{Files: map[string]map[string]string{"m": files}, Mods: []Mod{{Dir: "m"}}, Types: types, LintUse: []string{"MINIMAL"}}
	// plain repetitions expose map-iteration order; a few perturbed schedules on top
	c.Pis = append(c.Pis, Pi{GoMaxProcs: 1, Parallelism: 1, Repeat: 6})
	for i := 0; i < 2; i++ {
		c.Pis = append(c.Pis, genPi(t))
	}
	return c
}

func seq(n int) []int {
	out := make([]int, n)
	for i := range out {
		out[i] = i
	}
	return out
}

func TestReexportFilterDeterminism(t *testing.T) {
	r := evid.R()
	ctx := context.Background()
	r.Check(t, r.Scale(60, 1500), 3, func(t *rapid.T) {
		c := genReexportCase(t)
		run(ctx, t, r, c)
		r.Class("reexport-case")
	})
}
