package c04

// Number sets that only grow: the reserved ranges of a message or enum are widened, merged, split into
// adjacent pieces, reordered or joined by new ranges (near 1, near the top of the number space, negative
// enum numbers). Every number reserved before is still reserved, so no category may report anything.

import (
	"context"
	"testing"

	"github.com/bufbuild/bufverif/internal/evid"
	"github.com/bufbuild/bufverif/internal/protogen"
	"pgregory.net/rapid"
)

func TestReservedSetsOnlyGrow(t *testing.T) {
	r := evid.R()
	ctx := context.Background()
	r.Check(t, r.Scale(250, 8000), 3, func(t *rapid.T) {
		var v *protogen.ValueCase
		if rapid.IntRange(0, 3).Draw(t, "names") == 0 {
			v = protogen.GenReservedNamesCase(t, false)
		} else {
			v = protogen.GenRangeCase(t, false)
		}
		if v.Breaking {
			t.Fatalf("harness: growing steps lost a number: %s", v.Desc)
		}
		ms := []Mod{{Dir: "m"}}
		c := &Case{Mode: "chain", Versions: []Version{
			{Mods: ms, Files: map[string]map[string]string{"m": {v.Path: v.Old}}, How: "generated"},
			{Mods: ms, Files: map[string]map[string]string{"m": {v.Path: v.New}}, How: "grow-" + v.Kind + ": " + v.Desc},
		}}
		run(ctx, t, r, c)
		r.NonTrivial(v.Old + v.New)
	})
}

// Defaults that do not change: a message whose fields carry boundary defaults (limits of the integer types,
// float limits, inf, nan, escapes) is compared with itself and with a copy that gained a message.
func TestDefaultsUnchanged(t *testing.T) {
	r := evid.R()
	ctx := context.Background()
	r.Check(t, r.Scale(120, 4000), 4, func(t *rapid.T) {
		v := protogen.GenDefaultCase(t)
		ms := []Mod{{Dir: "m"}}
		grown := v.Old + "\nmessage AddedLater {\n  repeated string note = 1;\n}\n"
		c := &Case{Mode: "chain", Versions: []Version{
			{Mods: ms, Files: map[string]map[string]string{"m": {v.Path: v.Old}}, How: "generated"},
			{Mods: ms, Files: map[string]map[string]string{"m": {v.Path: grown}}, How: "add-message: after defaulted fields (" + v.Steps[0] + ")"},
		}}
		run(ctx, t, r, c)
		r.NonTrivial(v.Old)
	})
}
