// C04 — compatible changes are never reported and breaking categories are ordered.
//
// (i)  chains S0 -> S1 -> ... -> Sn of additive / cosmetic edits (new files, messages, enums, services,
//      RPCs, oneofs of new fields, reserved ranges/names, enum values and non-required fields with fresh
//      numbers and names, re-commented and re-laid-out copies, bufformat output): every Si against every
//      earlier Sj (and itself) must be clean in all four categories and all three config versions.
// (ii) arbitrary pairs (S, S') obtained with 1-4 operators of the breaking catalogue and additive
//      edits: clean(FILE) => clean(PACKAGE) => clean(WIRE_JSON) => clean(WIRE), per config version.
package c04

import (
	"bytes"
	"context"
	"fmt"
	"strings"
	"testing"

	"github.com/bufbuild/buf/private/buf/bufformat"
	"github.com/bufbuild/buf/private/bufpkg/bufimage"
	"github.com/bufbuild/bufverif/internal/bufx"
	"github.com/bufbuild/bufverif/internal/checkx"
	"github.com/bufbuild/bufverif/internal/evid"
	"github.com/bufbuild/bufverif/internal/protogen"
	"github.com/bufbuild/protocompile/parser"
	"github.com/bufbuild/protocompile/reporter"
	"pgregory.net/rapid"
)

func TestMain(m *testing.M) { evid.Main(m, "C04") }

type Mod struct {
	Dir  string `json:"dir"`
	Name string `json:"name,omitempty"`
}

// Version is one schema version of a chain.
type Version struct {
	Mods  []Mod                        `json:"modules"`
	Files map[string]map[string]string `json:"files"`
	How   string                       `json:"how"`
}

// Case is the replayable input.
type Case struct {
	Mode     string    `json:"mode"` // chain | pair
	Versions []Version `json:"versions"`
}

func mods(ws *protogen.Workspace) []Mod {
	var out []Mod
	for _, m := range ws.Modules {
		out = append(out, Mod{m.Dir, m.Name})
	}
	return out
}

func build(ctx context.Context, v Version) (bufimage.Image, error) {
	ws := &protogen.Workspace{}
	for _, m := range v.Mods {
		ws.Modules = append(ws.Modules, &protogen.Module{Dir: m.Dir, Name: m.Name})
	}
	return bufx.BuildImage(ctx, ws, v.Files)
}

func formatText(path, text string) (string, error) {
	h := reporter.NewHandler(nil)
	node, err := parser.Parse(path, strings.NewReader(text), h)
	if err != nil {
		return "", err
	}
	var buf bytes.Buffer
	if err := bufformat.FormatFileNode(&buf, node); err != nil {
		return "", err
	}
	return buf.String(), nil
}

func renderNoisy(ws *protogen.Workspace, ed *protogen.Editor) map[string]map[string]string {
	out := map[string]map[string]string{}
	for _, m := range ws.Modules {
		files := map[string]string{}
		for _, f := range m.Files {
			files[f.Path] = protogen.RenderFile(f, protogen.LayoutNoise{E: ed}).Text
		}
		out[m.Dir] = files
	}
	return out
}

func genChain(t *rapid.T, cfg protogen.GenConfig) *Case {
	ws := protogen.GenWorkspace(t, cfg)
	ed := protogen.NewEditor(t)
	c := &Case{Mode: "chain"}
	c.Versions = append(c.Versions, Version{Mods: mods(ws), Files: ws.Render().ByModule, How: "generated"})
	n := rapid.IntRange(1, 5).Draw(t, "steps")
	cur := ws
	for i := 0; i < n; i++ {
		next := cur.Clone()
		switch rapid.IntRange(0, 9).Draw(t, "stepkind") {
		case 0: // re-laid-out copy (whitespace + comments between tokens)
			c.Versions = append(c.Versions, Version{Mods: mods(next), Files: renderNoisy(next, ed), How: "re-laid-out with comments"})
		case 1: // bufformat output of the canonical rendering
			files := next.Render().ByModule
			ok := true
			for _, fs := range files {
				for p, txt := range fs {
					out, err := formatText(p, txt)
					if err != nil {
						ok = false
						break
					}
					fs[p] = out
				}
			}
			if !ok {
				t.Fatalf("harness: bufformat failed on a generated file")
			}
			c.Versions = append(c.Versions, Version{Mods: mods(next), Files: files, How: "formatted by bufformat"})
		default:
			a := ed.ApplyAdditive(next)
			if a == nil {
				continue
			}
			c.Versions = append(c.Versions, Version{Mods: mods(next), Files: next.Render().ByModule, How: a.Op + ": " + a.Desc})
		}
		cur = next
	}
	return c
}

func genPair(t *rapid.T, cfg protogen.GenConfig) *Case {
	// a quarter of the pairs start from a schema with unused imports, which the newer version drops from one
	// file: a file that was only an import may vanish from the image
	dropImports := rapid.IntRange(0, 3).Draw(t, "dropimports") == 0
	cfg.UnusedImports = dropImports
	ws := protogen.GenWorkspace(t, cfg)
	ed := protogen.NewEditor(t)
	c := &Case{Mode: "pair"}
	c.Versions = append(c.Versions, Version{Mods: mods(ws), Files: ws.Render().ByModule, How: "generated"})
	next := ws.Clone()
	var how []string
	if dropImports {
		var cands []*protogen.File
		for _, f := range next.AllFiles() {
			for _, i := range f.Imports {
				if i.Unused {
					cands = append(cands, f)
					break
				}
			}
		}
		if len(cands) > 0 {
			f := cands[rapid.IntRange(0, len(cands)-1).Draw(t, "dropfile")]
			var kept []protogen.Import
			for _, i := range f.Imports {
				if !i.Unused {
					kept = append(kept, i)
				}
			}
			f.Imports = kept
			how = append(how, "drop-unused-imports")
		}
	}
	n := rapid.IntRange(1, 4).Draw(t, "edits")
	if rapid.Bool().Draw(t, "single") {
		n = 1 // a single edit: its own category profile is not masked by other edits
	}
	if len(how) > 0 && rapid.Bool().Draw(t, "onlydrop") {
		n = 0 // nothing but the dropped imports
	}
	for i := 0; i < n; i++ {
		var e *protogen.Edit
		if n > 1 && rapid.IntRange(0, 3).Draw(t, "additive") == 0 {
			e = ed.ApplyAdditive(next)
		} else {
			e = ed.ApplyBreaking(next)
		}
		if e != nil {
			how = append(how, e.Op)
		}
	}
	c.Versions = append(c.Versions, Version{Mods: mods(next), Files: next.Render().ByModule, How: strings.Join(how, " + ")})
	return c
}

func run(ctx context.Context, t interface {
	Fatalf(string, ...any)
	Helper()
}, r *evid.Recorder, c *Case) {
	imgs := make([]bufimage.Image, len(c.Versions))
	for i, v := range c.Versions {
		img, err := build(ctx, v)
		if err != nil {
			if c.Mode == "pair" && i > 0 {
				// several breaking operators applied one after another may produce a schema that does not build
				// (e.g. a type deleted after a field was retargeted to it): such pairs are outside the domain
				r.Class("pair-not-buildable-skipped")
				return
			}
			t.Fatalf("harness: version %d (%s) does not build: %v", i, v.How, err)
		}
		imgs[i] = img
	}
	if c.Mode == "chain" {
		kinds := map[string]bool{}
		for _, v := range c.Versions[1:] {
			kinds[strings.SplitN(v.How, ":", 2)[0]] = true
			r.Class("step:" + strings.SplitN(v.How, ":", 2)[0])
		}
		for i := range c.Versions {
			for j := 0; j <= i; j++ {
				for _, ver := range protogen.Versions {
					for _, cat := range protogen.Categories {
						cfg, err := checkx.BreakingConfig(ver, []string{cat}, nil, nil, nil, false)
						if err != nil {
							t.Fatalf("harness: %v", err)
						}
						anns, err := checkx.Breaking(ctx, cfg, imgs[i], imgs[j])
						r.Eval()
						if err != nil {
							r.Fail(t, "breaking-error", fmt.Sprintf("Breaking(%s,%s) of version %d against %d failed: %v", cat, ver, i, j, err), c)
							return
						}
						if len(anns) > 0 {
							steps := []string{}
							for _, v := range c.Versions[j+1 : i+1] {
								steps = append(steps, v.How)
							}
							r.Fail(t, "false-positive:"+anns[0].Type, fmt.Sprintf("[%s/%s] version %d against %d (steps: %s) reports %v", cat, ver, i, j, strings.Join(steps, " | "), anns), c)
							return
						}
					}
				}
			}
		}
		if len(c.Versions) >= 4 && len(kinds) >= 2 {
			r.NonTrivial(fmt.Sprintf("%v", c.Versions))
		}
		r.Class(fmt.Sprintf("chain-len-%d", len(c.Versions)))
		hows := []string{}
		for _, v := range c.Versions {
			hows = append(hows, v.How)
		}
		r.Sample(map[string]any{"mode": "chain", "steps": hows})
		return
	}
	// pair: hierarchy
	for _, ver := range protogen.Versions {
		clean := map[string]bool{}
		first := map[string]string{}
		for _, cat := range protogen.Categories {
			cfg, err := checkx.BreakingConfig(ver, []string{cat}, nil, nil, nil, false)
			if err != nil {
				t.Fatalf("harness: %v", err)
			}
			anns, err := checkx.Breaking(ctx, cfg, imgs[1], imgs[0])
			r.Eval()
			if err != nil {
				r.Fail(t, "breaking-error", fmt.Sprintf("Breaking(%s,%s) failed: %v", cat, ver, err), c)
				return
			}
			clean[cat] = len(anns) == 0
			if len(anns) > 0 {
				first[cat] = anns[0].String()
			}
		}
		for k := 0; k+1 < len(protogen.Categories); k++ {
			strict, lax := protogen.Categories[k], protogen.Categories[k+1]
			if clean[strict] && !clean[lax] {
				r.Fail(t, "hierarchy:"+strict+"-clean-but-"+lax+"-dirty", fmt.Sprintf("[%s] %s is clean but %s reports %s (edits: %s)", ver, strict, lax, first[lax], c.Versions[1].How), c)
				return
			}
		}
		anyDirty, anyClean := false, false
		for _, cat := range protogen.Categories {
			if clean[cat] {
				anyClean = true
			} else {
				anyDirty = true
			}
		}
		if anyDirty && anyClean {
			r.NonTrivial(fmt.Sprintf("%s|%v", ver, c.Versions[1].Files))
			r.Class("pair:mixed-verdicts")
		} else if anyDirty {
			r.Class("pair:all-dirty")
		} else {
			r.Class("pair:all-clean")
		}
	}
	r.Sample(map[string]any{"mode": "pair", "edits": c.Versions[1].How})
}

func genCfg() protogen.GenConfig {
	cfg := protogen.DefaultConfig()
	cfg.UnusedImports = false
	cfg.MaxFiles, cfg.MaxModules = 4, 2
	return cfg
}

func TestCompatibleChains(t *testing.T) {
	r := evid.R()
	ctx := context.Background()
	r.Check(t, r.Scale(160, 2000), 1, func(t *rapid.T) {
		run(ctx, t, r, genChain(t, genCfg()))
	})
}

func TestCategoryHierarchy(t *testing.T) {
	r := evid.R()
	ctx := context.Background()
	r.Check(t, r.Scale(500, 8000), 2, func(t *rapid.T) {
		run(ctx, t, r, genPair(t, genCfg()))
	})
}

func TestReplay(t *testing.T) {
	var c Case
	ok, err := evid.ReplayCase(&c)
	if !ok {
		t.Skip("no VERIF_REPLAY")
	}
	if err != nil {
		t.Fatal(err)
	}
	r := evid.R()
	defer r.Begin(t)()
	run(context.Background(), t, r, &c)
}
