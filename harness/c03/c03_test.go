// C03 — no documented breaking change goes unreported.
//
// Domain: generated schema S × one operator of the breaking-edit catalogue at a drawn applicable
// site × 0..3 unrelated additive edits → S'. Every (category, config version) pair plus single-rule
// configurations are run through bufcheck.Client.Breaking(S' against S).
//
// Oracle: each operator names the rule ids that document it as breaking (internal/protogen/edits.go;
// category membership per config version is a separate reference table). For every expected id the
// result must contain an annotation with that Type, mentioning the edited element, free of fmt
// error markers, in the element's file and inside the renderer-recorded span of the element (or of
// its nearest surviving ancestor). Extra annotations are never an error here.
package c03

import (
	"context"
	"fmt"
	"sort"
	"strings"
	"testing"

	"github.com/bufbuild/buf/private/bufpkg/bufimage"
	"github.com/bufbuild/bufverif/internal/bufx"
	"github.com/bufbuild/bufverif/internal/checkx"
	"github.com/bufbuild/bufverif/internal/evid"
	"github.com/bufbuild/bufverif/internal/protogen"
	"pgregory.net/rapid"
)

func TestMain(m *testing.M) { evid.Main(m, "C03") }

// Span is a recorded source span.
type Span struct {
	Start protogen.Pos `json:"start"`
	End   protogen.Pos `json:"end"`
}

// Case is the replayable input.
type Case struct {
	Modules []Mod                        `json:"modules"`
	Old     map[string]map[string]string `json:"old"`
	New     map[string]map[string]string `json:"new"`
	NewMods []Mod                        `json:"new_modules"`
	Edit    protogen.Edit                `json:"edit"`
	Span    *Span                        `json:"span,omitempty"`
	Spans   map[string]*Span             `json:"rule_spans,omitempty"` // per-rule override
	Around  []string                     `json:"around,omitempty"`
	// CLI: input kinds and flags of a command-line case (cli_test.go, TestCLIBreakingFlags)
	CLI *CLIRun `json:"cli,omitempty"`
}

type Mod struct {
	Dir  string `json:"dir"`
	Name string `json:"name,omitempty"`
}

func mods(ws *protogen.Workspace) []Mod {
	var out []Mod
	for _, m := range ws.Modules {
		out = append(out, Mod{m.Dir, m.Name})
	}
	return out
}

func wsOf(ms []Mod) *protogen.Workspace {
	ws := &protogen.Workspace{}
	for _, m := range ms {
		ws.Modules = append(ws.Modules, &protogen.Module{Dir: m.Dir, Name: m.Name})
	}
	return ws
}

func build(ctx context.Context, ms []Mod, files map[string]map[string]string) (bufimage.Image, error) {
	return bufx.BuildImage(ctx, wsOf(ms), files)
}

func genCase(t *rapid.T, cfg protogen.GenConfig) *Case {
	ws := protogen.GenWorkspace(t, cfg)
	old := ws.Render()
	nw := ws.Clone()
	ed := protogen.NewEditor(t)
	edit := ed.ApplyBreaking(nw)
	if edit == nil {
		t.Skip("no operator applicable")
	}
	var around []string
	for i := 0; i < rapid.IntRange(0, 3).Draw(t, "around"); i++ {
		if a := ed.ApplyAdditive(nw); a != nil {
			around = append(around, a.Op+": "+a.Desc)
		}
	}
	nr := nw.Render()
	c := &Case{Modules: mods(ws), Old: old.ByModule, New: nr.ByModule, NewMods: mods(nw), Edit: *edit, Around: around}
	if edit.ElemID != "" {
		if p, ok := nr.Pos[edit.ElemID]; ok {
			c.Span = &Span{p.Start, p.End}
		}
	}
	for rule, id := range edit.PerRuleElem {
		if p, ok := nr.Pos[id]; ok {
			if c.Spans == nil {
				c.Spans = map[string]*Span{}
			}
			c.Spans[rule] = &Span{p.Start, p.End}
		}
	}
	return c
}

func within(s *Span, line, col int) bool {
	p := protogen.ElemPos{Start: s.Start, End: s.End}
	return p.Contains(protogen.Pos{Line: line, Col: col})
}

// checkExpectation looks for a satisfying annotation of the given rule.
func checkExpectation(c *Case, rule string, anns []bufx.Ann) (string, string) {
	var same []bufx.Ann
	for _, a := range anns {
		if a.Type == rule {
			same = append(same, a)
		}
	}
	if len(same) == 0 {
		return "not-reported", fmt.Sprintf("no %s annotation; got %v", rule, types(anns))
	}
	mentions := c.Edit.MentionsFor(rule)
	span := c.Span
	if s, ok := c.Spans[rule]; ok {
		span = s
	}
	var why []string
	for _, a := range same {
		if strings.Contains(a.Message, "%!") {
			return "message-format-error", fmt.Sprintf("%s message is a fmt error string: %q", rule, a.Message)
		}
		if c.Edit.File != "" && a.Path != c.Edit.File {
			why = append(why, fmt.Sprintf("path %q != %q", a.Path, c.Edit.File))
			continue
		}
		ok := len(mentions) == 0
		for _, m := range mentions {
			if m != "" && strings.Contains(a.Message, m) {
				ok = true
			}
		}
		if !ok {
			why = append(why, fmt.Sprintf("message %q mentions none of %v", a.Message, mentions))
			continue
		}
		if span != nil && c.Edit.File != "" && !within(span, a.Line, a.Col) {
			why = append(why, fmt.Sprintf("position %d:%d outside element span %v-%v", a.Line, a.Col, span.Start, span.End))
			continue
		}
		return "", ""
	}
	key := "wrong-element"
	for _, w := range why {
		if strings.HasPrefix(w, "position") {
			key = "wrong-location"
		}
	}
	return key, fmt.Sprintf("%s reported but not for the edited element: %s", rule, strings.Join(why, "; "))
}

func types(anns []bufx.Ann) []string {
	set := map[string]bool{}
	for _, a := range anns {
		set[a.Type] = true
	}
	return protogen.SortedKeys(set)
}

func runCase(ctx context.Context, t interface {
	Fatalf(string, ...any)
	Helper()
}, r *evid.Recorder, c *Case) {
	oldImg, err := build(ctx, c.Modules, c.Old)
	if err != nil {
		t.Fatalf("harness: old schema does not build: %v", err)
	}
	newImg, err := build(ctx, c.NewMods, c.New)
	if err != nil {
		t.Fatalf("harness: edited schema does not build (op %s: %s): %v", c.Edit.Op, c.Edit.Desc, err)
	}
	r.Class("op:" + c.Edit.Op)
	nExpected := 0
	for _, ver := range protogen.Versions {
		for _, cat := range protogen.Categories {
			want := c.Edit.ExpectedRules(cat, ver)
			if len(want) == 0 {
				continue
			}
			cfg, err := checkx.BreakingConfig(ver, []string{cat}, nil, nil, nil, false)
			if err != nil {
				t.Fatalf("harness: config: %v", err)
			}
			anns, err := checkx.Breaking(ctx, cfg, newImg, oldImg)
			r.Eval()
			if err != nil {
				r.Fail(t, "breaking-error", fmt.Sprintf("Breaking(%s,%s) failed: %v", cat, ver, err), c)
				return
			}
			for _, rule := range want {
				nExpected++
				r.Class("rule:" + rule)
				if key, msg := checkExpectation(c, rule, anns); key != "" {
					r.Fail(t, key+":"+rule, fmt.Sprintf("[%s/%s] op %s (%s): %s", cat, ver, c.Edit.Op, c.Edit.Desc, msg), c)
					return
				}
			}
		}
		// single-rule configurations (the only way to reach uncategorised rules)
		for _, rule := range c.Edit.Rules {
			if !protogen.RuleExists(rule, ver) {
				continue
			}
			cfg, err := checkx.BreakingConfig(ver, []string{rule}, nil, nil, nil, false)
			if err != nil {
				r.Fail(t, "rule-unknown:"+rule, fmt.Sprintf("rule %s documented for %s is rejected: %v", rule, ver, err), c)
				return
			}
			anns, err := checkx.Breaking(ctx, cfg, newImg, oldImg)
			r.Eval()
			if err != nil {
				r.Fail(t, "breaking-error", fmt.Sprintf("Breaking(use=%s,%s) failed: %v", rule, ver, err), c)
				return
			}
			if key, msg := checkExpectation(c, rule, anns); key != "" {
				r.Fail(t, key+":"+rule, fmt.Sprintf("[use=%s/%s] op %s (%s): %s", rule, ver, c.Edit.Op, c.Edit.Desc, msg), c)
				return
			}
			for _, a := range anns {
				if a.Type != rule {
					r.Fail(t, "single-rule-config-reports-other-rule", fmt.Sprintf("use=[%s] reported %s", rule, a.Type), c)
					return
				}
			}
		}
	}
	if nExpected > 0 && (len(c.Around) > 0 || c.Span != nil) {
		r.NonTrivial(fmt.Sprintf("%s|%s|%v", c.Edit.Op, c.Edit.Desc, c.New))
	}
	if len(c.Around) > 0 {
		r.Class("surrounded-by-compatible-edits")
	}
	r.Sample(map[string]any{"op": c.Edit.Op, "desc": c.Edit.Desc, "rules": c.Edit.Rules, "around": c.Around})
}

func TestBreakingReported(t *testing.T) {
	r := evid.R()
	ctx := context.Background()
	cfg := protogen.DefaultConfig()
	cfg.UnusedImports = false
	cfg.MaxFiles, cfg.MaxModules = 4, 2
	r.Check(t, r.Scale(600, 24000), 1, func(t *rapid.T) {
		c := genCase(t, cfg)
		runCase(ctx, t, r, c)
	})
}

// TestCatalogueCoverage fails the generator (not buf) if an operator never applies.
func TestCatalogueCoverage(t *testing.T) {
	if !evid.R().Thorough() {
		t.Skip("thorough only")
	}
	// evaluated by the driver from the class histogram; nothing to do in-process
}

func TestReplay(t *testing.T) {
	var c Case
	ok, err := evid.ReplayCase(&c)
	if !ok {
		t.Skip("no VERIF_REPLAY")
	}
	if err != nil {
		t.Fatal(err)
	}
	r := evid.R()
	defer r.Begin(t)()
	if c.CLI != nil {
		runCLICase(context.Background(), t, r, &c)
		return
	}
	runCase(context.Background(), t, r, &c)
}

var _ = sort.Strings
