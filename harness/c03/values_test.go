package c03

// Value-level breaking edits: number sets (reserved ranges of messages and enums, extension ranges) that lose
// a number, and field defaults that change value. The expected verdict comes from interval arithmetic /
// literal parsing in internal/protogen/values.go, not from the edit that was applied.

import (
	"context"
	"fmt"
	"testing"

	"github.com/bufbuild/bufverif/internal/evid"
	"github.com/bufbuild/bufverif/internal/protogen"
	"pgregory.net/rapid"
)

func valueCase(v *protogen.ValueCase) *Case {
	ms := []Mod{{Dir: "m"}}
	return &Case{
		Modules: ms, NewMods: ms,
		Old:  map[string]map[string]string{"m": {v.Path: v.Old}},
		New:  map[string]map[string]string{"m": {v.Path: v.New}},
		Edit: protogen.Edit{Op: "values:" + v.Kind, Desc: v.Desc, Rules: []string{v.Rule}, File: v.Path, Mention: v.Mention},
		Span: &Span{v.Start, v.End},
	}
}

func TestNumberSetsLoseValues(t *testing.T) {
	r := evid.R()
	ctx := context.Background()
	r.Check(t, r.Scale(300, 12000), 3, func(t *rapid.T) {
		var v *protogen.ValueCase
		if rapid.IntRange(0, 3).Draw(t, "names") == 0 {
			v = protogen.GenReservedNamesCase(t, true)
		} else {
			v = protogen.GenRangeCase(t, true)
		}
		if !v.Breaking {
			// the drawn steps re-covered everything they removed: nothing is documented as breaking
			r.Class("values:steps-cancelled-out")
			return
		}
		for _, s := range v.Steps {
			r.Class("values:step:" + firstWords(s))
		}
		runCase(ctx, t, r, valueCase(v))
	})
}

func TestDefaultValueChanges(t *testing.T) {
	r := evid.R()
	ctx := context.Background()
	r.Check(t, r.Scale(200, 8000), 4, func(t *rapid.T) {
		v := protogen.GenDefaultCase(t)
		r.Class("values:default-type:" + v.Steps[0])
		runCase(ctx, t, r, valueCase(v))
	})
}

func firstWords(s string) string {
	for _, p := range []string{"widen start", "widen end", "shrink start", "shrink end", "merge", "split", "add", "delete", "drop", "shift", "replace", "reorder"} {
		if len(s) >= len(p) && s[:len(p)] == p {
			return p
		}
	}
	return "other"
}

func TestDeletionsAndReservations(t *testing.T) {
	r := evid.R()
	ctx := context.Background()
	r.Check(t, r.Scale(300, 10000), 5, func(t *rapid.T) {
		d := protogen.GenDeleteCase(t)
		c := valueCase(&d.ValueCase)
		c.Edit.Rules = d.Rules
		r.Class(fmt.Sprintf("values:%s:expected-rules-%d", d.Kind, len(d.Rules)))
		runCase(ctx, t, r, c)
	})
}
