// C03, command-line domain: `buf breaking <new> --against <old> --error-format=json` with drawn flags.
//
// Both versions of a generated (S, S') pair (one catalogue operator, genCase) are written to disk as
// v2 workspaces and handed to the command as
//   - two directories (absolute paths),
//   - the working directory (input ".") against a tar/zip archive or a local git repository,
//   - two archives (tar / tar.gz / zip; each side optionally wrapped in a leading directory addressed
//     with #subdir), or
//   - two binary images (built in-process),
//
// with the rule selection (use: [<category or rule>], config version v2) either inside buf.yaml or
// passed with --config (and optionally the same data as --against-config), and with a drawn
// combination of --path, --limit-to-input-files and --exclude-imports.
//
// Expectations, derived from the statement and the flag documentation in
// private/buf/cmd/buf/command/breaking/breaking.go:
//   - --path ("Limit to specific files or directories", applied to both inputs): the checked image is
//     the import closure of the files under the paths. The expected rule must be reported at the
//     edited element whenever the edited file is in the import closure of the targeted files of BOTH
//     versions (as a target or merely as an import), and --exclude-imports is not given.
//   - --exclude-imports ("Exclude imports from breaking change detection"): annotations located in
//     files that are only imports may be dropped; the expectation stays for an edited file that is
//     itself targeted.
//   - --limit-to-input-files ("Only run breaking checks against the files in the input. When set, the
//     against input contains only the files in the input. Overrides --path"): it restricts the AGAINST
//     side to the files of the input image; every file of the input image that exists in the against
//     input is still there, so whatever is expected without the flag for a file present in both stays
//     expected with it (imports included, unless --exclude-imports is given too).
//   - --config / --against-config with the same data: no change.
//
// --path values are written the way the command line resolves them: relative to the archive's #subdir
// root for archives and git (the same on both sides), the image path for images, relative to the
// working directory for the "." input. Two absolute directories cannot share a --path value (the same
// value is applied to both inputs), so that kind is run without --path / --limit-to-input-files.
//
// Preconditions found on the unchanged tree (both are loud refusals, exit 1, not unreported changes):
//   - --limit-to-input-files together with a --path whose import closure reaches a workspace module that
//     has no targeted file: "input contained 1 images, whereas against contained 2 images";
//   - --limit-to-input-files with an archive INPUT that uses #subdir: the input's file paths are printed with
//     the subdir and do not resolve in the against input ("no .proto files were targeted");
//   - a --config / --against-config override that lists modules, on an archive / git input with #subdir:
//     "input ... did not contain modules found in workspace".
package c03

import (
	"archive/tar"
	"archive/zip"
	"bytes"
	"compress/gzip"
	"context"
	"encoding/json"
	"fmt"
	"os"
	"os/exec"
	"path"
	"path/filepath"
	"regexp"
	"sort"
	"strings"
	"testing"

	"github.com/bufbuild/buf/private/bufpkg/bufimage"
	"github.com/bufbuild/buf/private/pkg/osext"
	"github.com/bufbuild/bufverif/internal/bufcli"
	"github.com/bufbuild/bufverif/internal/bufx"
	"github.com/bufbuild/bufverif/internal/evid"
	"github.com/bufbuild/bufverif/internal/protogen"
	"google.golang.org/protobuf/proto"
	"pgregory.net/rapid"
)

// CLIRun is the command-line part of a case.
type CLIRun struct {
	// Kind: dir-dir | cwd-archive | cwd-git | archive-archive | image-image
	Kind string `json:"kind"`
	// NewArchive / OldArchive: tar | tar.gz | zip (archive kinds)
	NewArchive string `json:"new_archive,omitempty"`
	OldArchive string `json:"old_archive,omitempty"`
	// NewWrap / OldWrap: a leading directory around the workspace inside the archive / repository (#subdir)
	NewWrap string `json:"new_wrap,omitempty"`
	OldWrap string `json:"old_wrap,omitempty"`
	// Use: the category (or single rule) selected in the v2 configuration
	Use string `json:"use"`
	// ConfigFlag: the configuration is passed with --config (buf.yaml on disk then only lists the modules)
	ConfigFlag bool `json:"config_flag,omitempty"`
	// AgainstConfig: the same data is also passed as --against-config
	AgainstConfig bool `json:"against_config,omitempty"`
	// Paths: --path values as workspace-relative paths (<module dir>/<file or directory>); for images the
	// module directory is dropped
	Paths             []string `json:"paths,omitempty"`
	LimitToInputFiles bool     `json:"limit_to_input_files,omitempty"`
	ExcludeImports    bool     `json:"exclude_imports,omitempty"`
}

var importRe = regexp.MustCompile(`(?m)^import (?:public |weak )?"([^"]+)";`)

// side is one version of the schema: file path -> (module dir, text, imports).
type side struct {
	mods  []Mod
	files map[string]map[string]string
	modOf map[string]string
	imps  map[string][]string
}

func newSide(ms []Mod, files map[string]map[string]string) *side {
	s := &side{mods: ms, files: files, modOf: map[string]string{}, imps: map[string][]string{}}
	for _, m := range ms {
		for p, txt := range files[m.Dir] {
			s.modOf[p] = m.Dir
			for _, g := range importRe.FindAllStringSubmatch(txt, -1) {
				s.imps[p] = append(s.imps[p], g[1])
			}
		}
	}
	return s
}

func underPath(dirOrFile, p string) bool {
	return dirOrFile == p || strings.HasPrefix(p, dirOrFile+"/")
}

// selPath is how a file is addressed by --path for the kind.
func (s *side) selPath(kind, p string) string {
	if kind == "image-image" {
		return p
	}
	return path.Join(s.modOf[p], p)
}

// targets: the files under the --path values (every file if none).
func (s *side) targets(run *CLIRun) map[string]bool {
	t := map[string]bool{}
	for p := range s.modOf {
		inc := len(run.Paths) == 0
		for _, tp := range run.Paths {
			if underPath(tp, s.selPath(run.Kind, p)) {
				inc = true
			}
		}
		if inc {
			t[p] = true
		}
	}
	return t
}

func (s *side) closure(roots map[string]bool) map[string]bool {
	seen := map[string]bool{}
	var rec func(string)
	rec = func(p string) {
		if seen[p] {
			return
		}
		seen[p] = true
		for _, i := range s.imps[p] {
			rec(i)
		}
	}
	for r := range roots {
		rec(r)
	}
	return seen
}

// expectation says whether the documented rule must be reported for the case under its flags.
type expectation struct {
	must bool
	why  string
}

func expect(c *Case) expectation {
	run := c.CLI
	nw, old := newSide(c.NewMods, c.New), newSide(c.Modules, c.Old)
	e := c.Edit.File
	if len(run.Paths) == 0 && !run.LimitToInputFiles && !run.ExcludeImports {
		return expectation{true, "whole workspace, no restricting flag"}
	}
	if e == "" {
		// an annotation without a file (deleted file): which side of a restriction it falls on is not documented
		return expectation{false, "edit has no surviving file"}
	}
	_, inNew := nw.modOf[e]
	_, inOld := old.modOf[e]
	if !inNew || !inOld {
		return expectation{false, "edited file is not present in both versions"}
	}
	tNew, tOld := nw.targets(run), old.targets(run)
	cNew := nw.closure(tNew)
	if !cNew[e] {
		return expectation{false, "edited file is not in the checked image"}
	}
	if run.ExcludeImports && !tNew[e] {
		return expectation{false, "edited file is import-only and --exclude-imports is given"}
	}
	if run.LimitToInputFiles {
		// the against input is targeted at the files of the input image: the edited file is one of them
		return expectation{true, "edited file is in the input image, hence in the limited against image"}
	}
	if !old.closure(tOld)[e] {
		return expectation{false, "edited file is not in the against image"}
	}
	return expectation{true, "edited file is in both images"}
}

// ---------------------------------------------------------------------------------------------
// generation of the flag combination

var gitPath = func() string {
	p, err := exec.LookPath("git")
	if err != nil {
		return ""
	}
	return p
}()

func sameModules(a, b []Mod) bool {
	if len(a) != len(b) {
		return false
	}
	for i := range a {
		if a[i].Dir != b[i].Dir {
			return false
		}
	}
	return true
}

func genRun(t *rapid.T, c *Case) *CLIRun {
	run := &CLIRun{}
	// configuration: a category that documents the edit as breaking under v2, else a single rule
	var uses []string
	for _, cat := range protogen.Categories {
		if len(c.Edit.ExpectedRules(cat, "v2")) > 0 {
			uses = append(uses, cat)
		}
	}
	if len(uses) == 0 {
		for _, rule := range c.Edit.Rules {
			if protogen.RuleExists(rule, "v2") {
				uses = append(uses, rule)
			}
		}
	}
	if len(uses) == 0 {
		t.Skip("edit has no v2 rule")
	}
	run.Use = uses[protogen.FairIntn(t, "use", 0, len(uses)-1)]
	kinds := []string{"dir-dir", "cwd-archive", "archive-archive", "archive-archive", "image-image", "image-image"}
	if gitPath != "" {
		kinds = append(kinds, "cwd-git")
	}
	run.Kind = kinds[protogen.FairIntn(t, "kind", 0, len(kinds)-1)]
	arch := []string{"tar", "tar.gz", "zip"}
	switch run.Kind {
	case "archive-archive":
		run.NewArchive = arch[protogen.FairIntn(t, "newarch", 0, 2)]
		run.OldArchive = arch[protogen.FairIntn(t, "oldarch", 0, 2)]
		if protogen.FairPct(t, "newwrap", 40) {
			run.NewWrap = "schema-new"
		}
		if protogen.FairPct(t, "oldwrap", 40) {
			run.OldWrap = "schema-old"
		}
	case "cwd-archive":
		run.OldArchive = arch[protogen.FairIntn(t, "oldarch", 0, 2)]
		if protogen.FairPct(t, "oldwrap", 40) {
			run.OldWrap = "schema-old"
		}
	case "cwd-git":
		if protogen.FairPct(t, "oldwrap", 40) {
			run.OldWrap = "schema-old"
		}
	}
	run.ConfigFlag = run.Kind == "image-image" || protogen.FairPct(t, "configflag", 50)
	run.AgainstConfig = run.ConfigFlag && protogen.FairPct(t, "againstconfig", 40)
	// precondition: the module paths of a --config / --against-config override are not resolved against the
	// #subdir of an archive or git input ("input \"schema-old\" did not contain modules found in workspace"):
	// a side that gets an override is not wrapped
	if run.ConfigFlag {
		run.NewWrap = ""
	}
	if run.AgainstConfig {
		run.OldWrap = ""
	}
	run.ExcludeImports = protogen.FairPct(t, "excludeimports", 20)
	if run.Kind == "dir-dir" {
		return run
	}
	run.LimitToInputFiles = protogen.FairPct(t, "limit", 50)
	if run.LimitToInputFiles {
		// precondition: --limit-to-input-files hands the printed (external) paths of the input's files to the
		// against input as --path values; those of an archive with #subdir carry the subdir, which the against
		// input does not resolve ("no .proto files were targeted"): the input side is not wrapped
		run.NewWrap = ""
	}
	nw, old := newSide(c.NewMods, c.New), newSide(c.Modules, c.Old)
	e := c.Edit.File
	if _, ok := nw.modOf[e]; !ok || e == "" {
		return run
	}
	// --path candidates: files present in both versions (the same value is applied to both inputs)
	var both []string
	for p := range nw.modOf {
		if old.modOf[p] == nw.modOf[p] && old.modOf[p] != "" {
			both = append(both, p)
		}
	}
	sort.Strings(both)
	if len(both) == 0 || old.modOf[e] != nw.modOf[e] {
		return run
	}
	// importers of the edited file (in the new version, themselves present in both)
	var importers []string
	for _, p := range both {
		if p != e && nw.closure(map[string]bool{p: true})[e] {
			importers = append(importers, p)
		}
	}
	pick := func(label string, from []string) string {
		p := from[protogen.FairIntn(t, label, 0, len(from)-1)]
		sp := nw.selPath(run.Kind, p)
		// sometimes the directory of the file instead of the file (never the module directory itself)
		if d := path.Dir(sp); d != "." && d != nw.modOf[p] && protogen.FairPct(t, label+"dir", 30) {
			return d
		}
		return sp
	}
	set := map[string]bool{}
	switch m := protogen.FairIntn(t, "pathmode", 0, 9); {
	case m <= 0: // no --path
	case m <= 3: // the edited file is targeted
		set[pick("self", []string{e})] = true
		if protogen.FairPct(t, "more", 40) {
			set[pick("other", both)] = true
		}
	case m <= 8 && len(importers) > 0: // only an importer of the edited file is targeted
		set[pick("importer", importers)] = true
	default: // anything
		set[pick("any", both)] = true
		if protogen.FairPct(t, "more", 40) {
			set[pick("other", both)] = true
		}
	}
	run.Paths = protogen.SortedKeys(set)
	if run.LimitToInputFiles && len(run.Paths) > 0 && run.Kind != "image-image" && crossesModules(nw, run) {
		// precondition (see header): the command compares one image per targeted module; the files of the input
		// image that come from a module without a --path would make the against side one module larger and
		// the command refuses ("input contained 1 images, whereas against contained 2 images")
		run.LimitToInputFiles = false
		evid.R().Class("cli-excluded:limit+path-imports-from-untargeted-module")
	}
	return run
}

// twinEligible: a --path case in which the edited file is only an import of the targeted files, the rule is
// expected, and the preconditions of --limit-to-input-files hold.
func twinEligible(c *Case) bool {
	run := c.CLI
	if run.LimitToInputFiles || run.ExcludeImports || run.Kind == "dir-dir" || run.NewWrap != "" || len(run.Paths) == 0 || c.Edit.File == "" {
		return false
	}
	nw := newSide(c.NewMods, c.New)
	t := nw.targets(run)
	if t[c.Edit.File] || !nw.closure(t)[c.Edit.File] || !expect(c).must {
		return false
	}
	return run.Kind == "image-image" || !crossesModules(nw, run)
}

// crossesModules: does the import closure of the targeted files reach a module none of whose files is targeted?
func crossesModules(nw *side, run *CLIRun) bool {
	t := nw.targets(run)
	mods := map[string]bool{}
	for p := range t {
		mods[nw.modOf[p]] = true
	}
	for p := range nw.closure(t) {
		if m, ok := nw.modOf[p]; ok && !mods[m] {
			return true
		}
	}
	return false
}

// ---------------------------------------------------------------------------------------------
// materialisation

func bufYAML(ms []Mod, use string) string {
	var y strings.Builder
	y.WriteString("version: v2\nmodules:\n")
	for _, m := range ms {
		fmt.Fprintf(&y, "  - path: %s\n", m.Dir)
		if m.Name != "" {
			fmt.Fprintf(&y, "    name: %s\n", m.Name)
		}
	}
	if use != "" {
		fmt.Fprintf(&y, "breaking:\n  use:\n    - %s\n", use)
	}
	return y.String()
}

func entriesOf(ms []Mod, files map[string]map[string]string, use string) map[string]string {
	out := map[string]string{"buf.yaml": bufYAML(ms, use)}
	for _, m := range ms {
		for p, txt := range files[m.Dir] {
			out[path.Join(m.Dir, p)] = txt
		}
	}
	return out
}

func prefixed(prefix string, entries map[string]string) map[string]string {
	if prefix == "" {
		return entries
	}
	out := map[string]string{}
	for p, txt := range entries {
		out[path.Join(prefix, p)] = txt
	}
	return out
}

func writeTree(root string, entries map[string]string) error {
	for p, txt := range entries {
		full := filepath.Join(root, filepath.FromSlash(p))
		if err := os.MkdirAll(filepath.Dir(full), 0o755); err != nil {
			return err
		}
		if err := os.WriteFile(full, []byte(txt), 0o644); err != nil {
			return err
		}
	}
	return nil
}

func archiveBytes(kind string, entries map[string]string) ([]byte, error) {
	var buf bytes.Buffer
	names := protogen.SortedPaths(entries)
	if kind == "zip" {
		zw := zip.NewWriter(&buf)
		for _, p := range names {
			w, err := zw.Create(p)
			if err != nil {
				return nil, err
			}
			if _, err := w.Write([]byte(entries[p])); err != nil {
				return nil, err
			}
		}
		if err := zw.Close(); err != nil {
			return nil, err
		}
		return buf.Bytes(), nil
	}
	var w interface{ Write([]byte) (int, error) } = &buf
	var zw *gzip.Writer
	if kind == "tar.gz" {
		zw = gzip.NewWriter(&buf)
		w = zw
	}
	tw := tar.NewWriter(w)
	for _, p := range names {
		if err := tw.WriteHeader(&tar.Header{Name: p, Mode: 0o644, Size: int64(len(entries[p])), Typeflag: tar.TypeReg}); err != nil {
			return nil, err
		}
		if _, err := tw.Write([]byte(entries[p])); err != nil {
			return nil, err
		}
	}
	if err := tw.Close(); err != nil {
		return nil, err
	}
	if zw != nil {
		if err := zw.Close(); err != nil {
			return nil, err
		}
	}
	return buf.Bytes(), nil
}

func writeArchive(file, kind, wrap string, entries map[string]string) (string, error) {
	data, err := archiveBytes(kind, prefixed(wrap, entries))
	if err != nil {
		return "", err
	}
	if err := os.WriteFile(file, data, 0o644); err != nil {
		return "", err
	}
	if wrap != "" {
		return file + "#subdir=" + wrap, nil
	}
	return file, nil
}

func gitRepo(dir, wrap string, entries map[string]string) (string, error) {
	if err := writeTree(dir, prefixed(wrap, entries)); err != nil {
		return "", err
	}
	for _, a := range [][]string{{"init", "-q", "-b", "main"}, {"add", "-A"}, {"commit", "-q", "-m", "previous"}} {
		cmd := exec.Command(gitPath, a...)
		cmd.Dir = dir
		cmd.Env = []string{"HOME=" + dir, "PATH=" + os.Getenv("PATH"), "GIT_CONFIG_NOSYSTEM=1",
			"GIT_AUTHOR_NAME=verif", "GIT_AUTHOR_EMAIL=verif@example.com", "GIT_COMMITTER_NAME=verif", "GIT_COMMITTER_EMAIL=verif@example.com",
			"GIT_AUTHOR_DATE=2020-01-01T00:00:00Z", "GIT_COMMITTER_DATE=2020-01-01T00:00:00Z"}
		if out, err := cmd.CombinedOutput(); err != nil {
			return "", fmt.Errorf("git %v: %v: %s", a, err, out)
		}
	}
	in := filepath.Join(dir, ".git") + "#branch=main"
	if wrap != "" {
		in += ",subdir=" + wrap
	}
	return in, nil
}

func imageFile(ctx context.Context, file string, ms []Mod, files map[string]map[string]string) error {
	img, err := build(ctx, ms, files)
	if err != nil {
		return err
	}
	pi, err := bufimage.ImageToProtoImage(img)
	if err != nil {
		return err
	}
	data, err := proto.Marshal(pi)
	if err != nil {
		return err
	}
	return os.WriteFile(file, data, 0o644)
}

type jsonAnn struct {
	Path        string `json:"path"`
	StartLine   int    `json:"start_line"`
	StartColumn int    `json:"start_column"`
	EndLine     int    `json:"end_line"`
	EndColumn   int    `json:"end_column"`
	Type        string `json:"type"`
	Message     string `json:"message"`
}

// parseAnns reads --error-format=json output and maps the printed (external) paths back to image paths.
func parseAnns(stdout string, nw *side) ([]bufx.Ann, error) {
	var out []bufx.Ann
	for _, line := range strings.Split(stdout, "\n") {
		if strings.TrimSpace(line) == "" {
			continue
		}
		var a jsonAnn
		if err := json.Unmarshal([]byte(line), &a); err != nil {
			return nil, fmt.Errorf("not a JSON annotation: %q", line)
		}
		p := filepath.ToSlash(a.Path)
		best, bestLen := p, -1
		for f, dir := range nw.modOf {
			full := path.Join(dir, f)
			if (p == f || p == full || strings.HasSuffix(p, "/"+full)) && len(full) > bestLen {
				best, bestLen = f, len(full)
			}
		}
		out = append(out, bufx.Ann{Path: best, External: a.Path, Line: a.StartLine, Col: a.StartColumn, EndLine: a.EndLine, EndCol: a.EndColumn, Type: a.Type, Message: a.Message})
	}
	return out, nil
}

func (run *CLIRun) flagClass() string {
	var f []string
	if len(run.Paths) > 0 {
		f = append(f, "path")
	}
	if run.LimitToInputFiles {
		f = append(f, "limit")
	}
	if run.ExcludeImports {
		f = append(f, "exclude-imports")
	}
	if len(f) == 0 {
		return "none"
	}
	return strings.Join(f, "+")
}

// runCLICase materialises both versions, runs the command and checks the expectation.
func runCLICase(ctx context.Context, t interface {
	Fatalf(string, ...any)
	Helper()
}, r *evid.Recorder, c *Case) {
	run := c.CLI
	if !sameModules(c.Modules, c.NewMods) {
		t.Fatalf("harness: module lists of the two versions differ")
	}
	tmp, err := os.MkdirTemp("", "c03cli-")
	if err != nil {
		t.Fatalf("harness: %v", err)
	}
	defer os.RemoveAll(tmp)
	home := filepath.Join(tmp, "home")
	if err := os.MkdirAll(home, 0o755); err != nil {
		t.Fatalf("harness: %v", err)
	}
	env := map[string]string{"HOME": home, "BUF_CACHE_DIR": filepath.Join(home, ".cache"), "PATH": os.Getenv("PATH")}
	inFile := run.Use
	if run.ConfigFlag {
		inFile = ""
	}
	newEntries, oldEntries := entriesOf(c.NewMods, c.New, inFile), entriesOf(c.Modules, c.Old, inFile)
	var input, against string
	fatal := func(err error) {
		if err != nil {
			t.Fatalf("harness: %v", err)
		}
	}
	switch run.Kind {
	case "dir-dir":
		input, against = filepath.Join(tmp, "new"), filepath.Join(tmp, "old")
		fatal(writeTree(input, newEntries))
		fatal(writeTree(against, oldEntries))
	case "cwd-archive", "cwd-git":
		root := filepath.Join(tmp, "new")
		fatal(writeTree(root, newEntries))
		if run.Kind == "cwd-git" {
			if gitPath == "" {
				t.Fatalf("harness: git input drawn but git is not installed")
			}
			against, err = gitRepo(filepath.Join(tmp, "oldrepo"), run.OldWrap, oldEntries)
		} else {
			against, err = writeArchive(filepath.Join(tmp, "old."+run.OldArchive), run.OldArchive, run.OldWrap, oldEntries)
		}
		fatal(err)
		wd, err := osext.Getwd()
		fatal(err)
		fatal(osext.Chdir(root))
		defer func() { _ = osext.Chdir(wd) }()
		input = "."
	case "archive-archive":
		input, err = writeArchive(filepath.Join(tmp, "new."+run.NewArchive), run.NewArchive, run.NewWrap, newEntries)
		fatal(err)
		against, err = writeArchive(filepath.Join(tmp, "old."+run.OldArchive), run.OldArchive, run.OldWrap, oldEntries)
		fatal(err)
	case "image-image":
		input, against = filepath.Join(tmp, "new.binpb"), filepath.Join(tmp, "old.binpb")
		if err := imageFile(ctx, input, c.NewMods, c.New); err != nil {
			t.Fatalf("harness: edited schema does not build (op %s: %s): %v", c.Edit.Op, c.Edit.Desc, err)
		}
		if err := imageFile(ctx, against, c.Modules, c.Old); err != nil {
			t.Fatalf("harness: old schema does not build: %v", err)
		}
	default:
		t.Fatalf("harness: unknown kind %q", run.Kind)
	}
	args := []string{"breaking", input, "--against", against, "--error-format=json"}
	if run.ConfigFlag {
		cfg := bufYAML(c.NewMods, run.Use)
		if run.Kind == "image-image" {
			cfg = fmt.Sprintf(`{"version":"v2","breaking":{"use":[%q]}}`, run.Use)
		}
		args = append(args, "--config", cfg)
		if run.AgainstConfig {
			acfg := cfg
			if run.Kind != "image-image" {
				acfg = bufYAML(c.Modules, run.Use)
			}
			args = append(args, "--against-config", acfg)
		}
	}
	for _, p := range run.Paths {
		args = append(args, "--path", p)
	}
	if run.LimitToInputFiles {
		args = append(args, "--limit-to-input-files")
	}
	if run.ExcludeImports {
		args = append(args, "--exclude-imports")
	}
	code, stdout, stderr := bufcli.Run(ctx, env, "", args...)
	r.Eval()
	exp := expect(c)
	r.Class("cli-kind:" + run.Kind)
	r.Class("cli-flags:" + run.flagClass())
	if run.ConfigFlag {
		r.Class("cli-config-flag")
	}
	if run.AgainstConfig {
		r.Class("cli-against-config")
	}
	r.Class("cli-op:" + c.Edit.Op)
	nw := newSide(c.NewMods, c.New)
	importOnly := false
	if e := c.Edit.File; e != "" && len(run.Paths) > 0 {
		tNew := nw.targets(run)
		importOnly = nw.closure(tNew)[e] && !tNew[e]
	}
	if importOnly {
		r.Class("cli-edited-file-import-only")
	}
	how := "buf " + strings.Join(args, " ")
	if code != 0 && code != 100 {
		r.Fail(t, "cli-breaking-error:"+run.Kind, fmt.Sprintf("%s: exit %d: %s", how, code, stderr), c)
		return
	}
	anns, err := parseAnns(stdout, nw)
	if err != nil {
		r.Fail(t, "cli-breaking-output", fmt.Sprintf("%s: %v", how, err), c)
		return
	}
	if (code == 100) != (len(anns) > 0) {
		r.Fail(t, "cli-exit-code", fmt.Sprintf("%s: exit %d with %d annotations", how, code, len(anns)), c)
		return
	}
	if !exp.must {
		r.Class("cli-no-expectation:" + exp.why)
		return
	}
	r.Class("cli-expected:" + run.flagClass())
	if importOnly {
		r.Class("cli-expected-in-import-only-file:" + run.flagClass())
	}
	var want []string
	if isCategory(run.Use) {
		want = c.Edit.ExpectedRules(run.Use, "v2")
	} else {
		want = []string{run.Use}
	}
	for _, rule := range want {
		if key, msg := checkExpectation(c, rule, anns); key != "" {
			r.Fail(t, "cli-"+key+":"+run.flagClass(), fmt.Sprintf("[%s] op %s (%s): %s (expected because: %s)", how, c.Edit.Op, c.Edit.Desc, msg, exp.why), c)
			return
		}
	}
	if len(run.Paths) > 0 || run.LimitToInputFiles || run.ExcludeImports {
		r.NonTrivial(fmt.Sprintf("cli|%s|%s|%v|%+v", c.Edit.Op, c.Edit.Desc, c.New, *run))
	}
	r.Sample(map[string]any{"op": c.Edit.Op, "desc": c.Edit.Desc, "cli": run, "edited_file": c.Edit.File})
}

func isCategory(s string) bool {
	for _, c := range protogen.Categories {
		if c == s {
			return true
		}
	}
	return false
}

// TestCLIBreakingFlags: generated (S, S') through `buf breaking` with drawn input kinds and flags.
func TestCLIBreakingFlags(t *testing.T) {
	r := evid.R()
	ctx := context.Background()
	cfg := protogen.DefaultConfig()
	cfg.UnusedImports = false
	cfg.MaxFiles, cfg.MaxModules = 5, 2
	r.Check(t, r.Scale(72, 2400), 7, func(t *rapid.T) {
		c := genCase(t, cfg)
		if !sameModules(c.Modules, c.NewMods) {
			t.Skip("module list changed")
		}
		for _, m := range c.NewMods {
			if len(c.New[m.Dir]) == 0 || len(c.Old[m.Dir]) == 0 {
				// a workspace module without any .proto file is refused by the command line
				t.Skip("module without files")
			}
		}
		c.CLI = genRun(t, c)
		runCLICase(ctx, t, r, c)
		if twinEligible(c) {
			// the same invocation with --limit-to-input-files added: the flag must not drop what is reported
			// without it for a file of the input image (here: a file that is only an import of the targets)
			c2, run2 := *c, *c.CLI
			run2.LimitToInputFiles = true
			c2.CLI = &run2
			r.Class("cli-twin:+limit-to-input-files")
			runCLICase(ctx, t, r, &c2)
		}
	})
}
