// C01 — an image is the exact, closed, ordered compilation of the targeted files.
//
// Domain: generated multi-module workspaces (protogen, wild mode) × target/non-target module
// assignment × --path/--exclude-path style selections × proto-file-ref targeting, built through
// bufmodule.ModuleSetBuilder + bufimage.BuildImage (mem and disk buckets) and, for a sample, through
// `buf build -o -` in-process. Second mode: one planted compile error.
//
// Oracle: a reference computed from the generated model without buf (targeted set, import closure,
// import flags), "dependencies first" validity of the order, and per-file descriptors / warning
// markers from protocompile called directly (internal/refcompile).
package c01

import (
	"context"
	"fmt"
	"os"
	"path/filepath"
	"sort"
	"strings"
	"testing"

	"github.com/bufbuild/buf/private/bufpkg/bufimage"
	"github.com/bufbuild/buf/private/bufpkg/bufmodule"
	"github.com/bufbuild/buf/private/bufpkg/bufparse"
	"github.com/bufbuild/buf/private/gen/data/datawkt"
	imagev1 "github.com/bufbuild/buf/private/gen/proto/go/buf/alpha/image/v1"
	"github.com/bufbuild/buf/private/pkg/storage/storageos"
	"github.com/bufbuild/bufverif/internal/bufcli"
	"github.com/bufbuild/bufverif/internal/bufx"
	"github.com/bufbuild/bufverif/internal/evid"
	"github.com/bufbuild/bufverif/internal/protogen"
	"github.com/bufbuild/bufverif/internal/refcompile"
	"google.golang.org/protobuf/proto"
	"pgregory.net/rapid"
)

func TestMain(m *testing.M) { evid.Main(m, "C01") }

// Case is the replayable input.
type Case struct {
	Modules []CaseModule                 `json:"modules"`
	Specs   map[string]bufx.ModuleSpec   `json:"specs"`
	Files   map[string]map[string]string `json:"files"`   // module dir -> path -> text
	Backend string                       `json:"backend"` // mem | disk | cli
	// error mode
	ErrFile string `json:"err_file,omitempty"`
	ErrLine int    `json:"err_line,omitempty"`
	ErrCol  int    `json:"err_col,omitempty"`
	ErrEnd  int    `json:"err_end_col,omitempty"`
	ErrKind string `json:"err_kind,omitempty"`
	// ErrFromCompiler: the expected position is the one the directly invoked compiler reports
	ErrFromCompiler bool `json:"err_from_compiler,omitempty"`
	// CLIFileRef: the CLI input is <file>#include_package_files=true instead of the workspace directory
	CLIFileRef bool `json:"cli_file_ref,omitempty"`
	// CLI: input kind, wrapping and --path/--exclude-path selection of a command-line case (cli_test.go)
	CLI *CLISel `json:"cli,omitempty"`
	// model-derived expectations (kept in the case so replay needs no generator)
	Imports       map[string][]string `json:"imports"`        // path -> import paths (model)
	PlantedUnused map[string][]string `json:"planted_unused"` // path -> imports planted as unused
	NoSyntax      []string            `json:"no_syntax"`
	Packages      map[string]string   `json:"packages"`
	Public        map[string][]string `json:"public"` // path -> paths it imports publicly
}

type CaseModule struct {
	Dir  string `json:"dir"`
	Name string `json:"name,omitempty"`
}

func under(dirOrFile, path string) bool {
	return dirOrFile == "." || dirOrFile == path || strings.HasPrefix(path, dirOrFile+"/")
}

// refTargets computes the targeted file set from the documented targeting rules.
func refTargets(c *Case) map[string]bool {
	if c.CLI != nil {
		return refTargetsCLI(c)
	}
	t := map[string]bool{}
	for _, m := range c.Modules {
		spec, ok := c.Specs[m.Dir]
		if !ok {
			spec = bufx.ModuleSpec{Target: true}
		}
		if !spec.Target {
			continue
		}
		for p := range c.Files[m.Dir] {
			switch {
			case spec.ProtoFile != "":
				if p == spec.ProtoFile || (spec.IncludePkg && c.Packages[spec.ProtoFile] != "" && c.Packages[p] == c.Packages[spec.ProtoFile]) {
					t[p] = true
				}
			default:
				inc := len(spec.TargetPaths) == 0
				for _, tp := range spec.TargetPaths {
					if under(tp, p) {
						inc = true
					}
				}
				for _, ep := range spec.ExcludePaths {
					if under(ep, p) {
						inc = false
					}
				}
				if inc {
					t[p] = true
				}
			}
		}
	}
	return t
}

func allSources(c *Case) map[string]string {
	out := map[string]string{}
	for _, files := range c.Files {
		for p, t := range files {
			out[p] = t
		}
	}
	return out
}

func moduleOf(c *Case, path string) *CaseModule {
	for i, m := range c.Modules {
		if _, ok := c.Files[m.Dir][path]; ok {
			return &c.Modules[i]
		}
	}
	return nil
}

// closure over model import edges; WKT leaves follow protogen.WKTDeps.
func refClosure(c *Case, roots map[string]bool) map[string]bool {
	seen := map[string]bool{}
	var rec func(p string)
	rec = func(p string) {
		if seen[p] {
			return
		}
		seen[p] = true
		if imps, ok := c.Imports[p]; ok {
			for _, i := range imps {
				rec(i)
			}
			return
		}
		for _, d := range protogen.WKTDeps[p] {
			rec(d)
		}
	}
	for r := range roots {
		rec(r)
	}
	return seen
}

func buildCase(ctx context.Context, t interface{ Fatalf(string, ...any) }, c *Case, tmp string) (bufimage.Image, error, string) {
	switch c.Backend {
	case "cli":
		return buildCLI(ctx, t, c, tmp)
	}
	b := bufmodule.NewModuleSetBuilder(ctx, bufx.Logger, bufmodule.NopModuleDataProvider, bufmodule.NopCommitProvider)
	extPrefix := ""
	for _, m := range c.Modules {
		spec, ok := c.Specs[m.Dir]
		if !ok {
			spec = bufx.ModuleSpec{Target: true}
		}
		var opts []bufmodule.LocalModuleOption
		if m.Name != "" {
			fn, err := bufparse.ParseFullName(m.Name)
			if err != nil {
				t.Fatalf("harness: %v", err)
			}
			opts = append(opts, bufmodule.LocalModuleWithFullNameAndCommitID(fn, bufx.CommitUUID(m.Name)))
		}
		if spec.Target && (len(spec.TargetPaths) > 0 || len(spec.ExcludePaths) > 0) {
			opts = append(opts, bufmodule.LocalModuleWithTargetPaths(spec.TargetPaths, spec.ExcludePaths))
		}
		if spec.Target && spec.ProtoFile != "" {
			opts = append(opts, bufmodule.LocalModuleWithProtoFileTargetPath(spec.ProtoFile, spec.IncludePkg))
		}
		if c.Backend == "disk" {
			root := filepath.Join(tmp, filepath.FromSlash(m.Dir))
			for p, txt := range c.Files[m.Dir] {
				full := filepath.Join(root, filepath.FromSlash(p))
				if err := os.MkdirAll(filepath.Dir(full), 0o755); err != nil {
					t.Fatalf("harness: %v", err)
				}
				if err := os.WriteFile(full, []byte(txt), 0o644); err != nil {
					t.Fatalf("harness: %v", err)
				}
			}
			bucket, err := storageos.NewProvider().NewReadWriteBucket(root)
			if err != nil {
				t.Fatalf("harness: %v", err)
			}
			b.AddLocalModule(bucket, m.Dir, spec.Target, opts...)
			extPrefix = tmp
		} else {
			bucket, err := bufx.BucketFor(c.Files[m.Dir])
			if err != nil {
				t.Fatalf("harness: %v", err)
			}
			b.AddLocalModule(bucket, m.Dir, spec.Target, opts...)
		}
	}
	ms, err := b.Build()
	if err != nil {
		return nil, err, extPrefix
	}
	img, err := bufimage.BuildImage(ctx, bufx.Logger, bufmodule.ModuleSetToModuleReadBucketWithOnlyProtoFiles(ms))
	return img, err, extPrefix
}

// buildCLI writes a v2 workspace and runs `buf build <dir> -o -` in-process (error mode and replay of
// older cases); cases with a CLISel go through buildCLISel (input kinds and path flags, cli_test.go).
func buildCLI(ctx context.Context, t interface{ Fatalf(string, ...any) }, c *Case, tmp string) (bufimage.Image, error, string) {
	if c.CLI != nil {
		return buildCLISel(ctx, t, c, tmp)
	}
	var y strings.Builder
	y.WriteString("version: v2\nmodules:\n")
	for _, m := range c.Modules {
		fmt.Fprintf(&y, "  - path: %s\n", m.Dir)
		if m.Name != "" {
			fmt.Fprintf(&y, "    name: %s\n", m.Name)
		}
		root := filepath.Join(tmp, filepath.FromSlash(m.Dir))
		for p, txt := range c.Files[m.Dir] {
			full := filepath.Join(root, filepath.FromSlash(p))
			if err := os.MkdirAll(filepath.Dir(full), 0o755); err != nil {
				t.Fatalf("harness: %v", err)
			}
			if err := os.WriteFile(full, []byte(txt), 0o644); err != nil {
				t.Fatalf("harness: %v", err)
			}
		}
	}
	if err := os.WriteFile(filepath.Join(tmp, "buf.yaml"), []byte(y.String()), 0o644); err != nil {
		t.Fatalf("harness: %v", err)
	}
	env := map[string]string{"HOME": tmp, "BUF_CACHE_DIR": filepath.Join(tmp, ".cache"), "PATH": os.Getenv("PATH")}
	input := tmp
	if c.CLIFileRef && c.ErrFile != "" {
		input = filepath.Join(tmp, filepath.FromSlash(moduleOf(c, c.ErrFile).Dir), filepath.FromSlash(c.ErrFile)) + "#include_package_files=true"
	}
	code, stdout, stderr := bufcli.Run(ctx, env, "", "build", input, "-o", "-")
	if code != 0 {
		return nil, &cliError{code: code, stderr: stderr}, tmp
	}
	pi := &imagev1.Image{}
	if err := proto.Unmarshal([]byte(stdout), pi); err != nil {
		t.Fatalf("harness: cannot unmarshal buf build output: %v", err)
	}
	img, err := bufimage.NewImageForProto(pi)
	if err != nil {
		t.Fatalf("harness: NewImageForProto: %v", err)
	}
	return img, nil, tmp
}

type cliError struct {
	code   int
	stderr string
}

func (e *cliError) Error() string { return fmt.Sprintf("exit %d: %s", e.code, e.stderr) }

// checkImage runs the success-mode oracle; returns key,msg on falsification.
func checkImage(ctx context.Context, c *Case, img bufimage.Image) (string, string) {
	targets := refTargets(c)
	want := refClosure(c, targets)
	files := img.Files()
	seen := map[string]int{}
	pos := map[string]int{}
	for i, f := range files {
		seen[f.Path()]++
		pos[f.Path()] = i
	}
	for p, n := range seen {
		if n != 1 {
			return "duplicate-path", fmt.Sprintf("path %s occurs %d times in the image", p, n)
		}
		if !want[p] {
			return "extra-file", fmt.Sprintf("image contains %s which is neither targeted nor imported by a target (targets %v)", p, protogen.SortedKeys(targets))
		}
	}
	for p := range want {
		if seen[p] == 0 {
			return "missing-file", fmt.Sprintf("image lacks %s which is in the import closure of targets %v", p, protogen.SortedKeys(targets))
		}
	}
	var tlist []string
	for p := range targets {
		tlist = append(tlist, p)
	}
	sort.Strings(tlist)
	ref := refcompile.Compile(ctx, allSources(c), tlist, true)
	if ref.Err != nil {
		return "harness", fmt.Sprintf("reference compile failed: %v %v", ref.Err, ref.Errors)
	}
	noSyntax := map[string]bool{}
	for _, p := range c.NoSyntax {
		noSyntax[p] = true
	}
	for i, f := range files {
		p := f.Path()
		fdp := f.FileDescriptorProto()
		for _, d := range fdp.GetDependency() {
			j, ok := pos[d]
			if !ok {
				return "dep-not-in-image", fmt.Sprintf("%s depends on %s which is not in the image", p, d)
			}
			if j >= i {
				return "order", fmt.Sprintf("%s (index %d) precedes its dependency %s (index %d)", p, i, d, j)
			}
		}
		if f.IsImport() == targets[p] {
			return "import-flag", fmt.Sprintf("%s: IsImport=%v but targeted=%v", p, f.IsImport(), targets[p])
		}
		rfdp, ok := ref.Files[p]
		if !ok {
			return "harness", fmt.Sprintf("reference compile has no %s", p)
		}
		if !proto.Equal(fdp, rfdp) {
			return "descriptor-differs", fmt.Sprintf("%s: descriptor differs from what protocompile produces for the same source", p)
		}
		// markers
		wantUnused := map[int32]bool{}
		for k, d := range rfdp.GetDependency() {
			if ref.Unused[p][d] {
				wantUnused[int32(k)] = true
			}
		}
		gotUnused := map[int32]bool{}
		for _, k := range f.UnusedDependencyIndexes() {
			gotUnused[k] = true
		}
		if fmt.Sprint(sortedIdx(wantUnused)) != fmt.Sprint(sortedIdx(gotUnused)) {
			return "unused-marker", fmt.Sprintf("%s: UnusedDependencyIndexes=%v, compiler warnings say %v (deps %v)", p, sortedIdx(gotUnused), sortedIdx(wantUnused), rfdp.GetDependency())
		}
		if targets[p] {
			// the generator knows which imports it planted as unused
			planted := map[string]bool{}
			for _, u := range c.PlantedUnused[p] {
				planted[u] = true
			}
			for k, d := range fdp.GetDependency() {
				if redundantImport(c, p, d) {
					// also visible through a public import of another import: which of the two the
					// compiler credits is its own business (covered by the differential above)
					continue
				}
				if planted[d] != gotUnused[int32(k)] {
					return "unused-marker-planted", fmt.Sprintf("%s: import %s planted-unused=%v but marker=%v", p, d, planted[d], gotUnused[int32(k)])
				}
			}
		}
		if f.IsSyntaxUnspecified() != ref.NoSyntax[p] {
			return "syntax-marker", fmt.Sprintf("%s: IsSyntaxUnspecified=%v, compiler warning=%v", p, f.IsSyntaxUnspecified(), ref.NoSyntax[p])
		}
		if _, ours := c.Imports[p]; ours && f.IsSyntaxUnspecified() != noSyntax[p] {
			return "syntax-marker-model", fmt.Sprintf("%s: IsSyntaxUnspecified=%v, generated without syntax=%v", p, f.IsSyntaxUnspecified(), noSyntax[p])
		}
		// module metadata
		m := moduleOf(c, p)
		if m == nil {
			// built-in WKT
			if f.FullName() != nil || f.CommitID().String() != "00000000-0000-0000-0000-000000000000" {
				return "wkt-metadata", fmt.Sprintf("%s: built-in WKT carries module %v commit %v", p, f.FullName(), f.CommitID())
			}
			data, err := readWKT(ctx, p)
			if err != nil {
				return "harness", fmt.Sprintf("datawkt lacks %s: %v", p, err)
			}
			wref := refcompile.Compile(ctx, map[string]string{}, []string{p}, true)
			_ = data
			if wref.Err != nil || !proto.Equal(wref.Files[p], fdp) {
				return "wkt-content", fmt.Sprintf("%s: does not equal the built-in copy", p)
			}
		} else {
			gotName := ""
			if f.FullName() != nil {
				gotName = f.FullName().String()
			}
			if gotName != m.Name {
				return "module-name", fmt.Sprintf("%s: FullName=%q, owning module is %q", p, gotName, m.Name)
			}
			if c.Backend != "cli" && m.Name != "" && f.CommitID() != bufx.CommitUUID(m.Name) {
				return "commit-id", fmt.Sprintf("%s: CommitID=%v want %v", p, f.CommitID(), bufx.CommitUUID(m.Name))
			}
		}
	}
	return "", ""
}

func under2(list []string, s string) bool {
	for _, x := range list {
		if x == s {
			return true
		}
	}
	return false
}

func publiclyReaches(c *Case, from, to string, seen map[string]bool) bool {
	if seen[from] {
		return false
	}
	seen[from] = true
	for _, p := range c.Public[from] {
		if p == to || publiclyReaches(c, p, to, seen) {
			return true
		}
	}
	return false
}

func redundantImport(c *Case, file, imp string) bool {
	for _, other := range c.Imports[file] {
		if other != imp && publiclyReaches(c, other, imp, map[string]bool{}) {
			return true
		}
	}
	return false
}

func readWKT(ctx context.Context, p string) ([]byte, error) {
	obj, err := datawkt.ReadBucket.Get(ctx, p)
	if err != nil {
		return nil, err
	}
	defer obj.Close()
	buf := make([]byte, 0, 1024)
	tmp := make([]byte, 4096)
	for {
		n, err := obj.Read(tmp)
		buf = append(buf, tmp[:n]...)
		if err != nil {
			break
		}
	}
	return buf, nil
}

func sortedIdx(m map[int32]bool) []int32 {
	var out []int32
	for k, v := range m {
		if v {
			out = append(out, k)
		}
	}
	sort.Slice(out, func(i, j int) bool { return out[i] < out[j] })
	return out
}

// ---------------------------------------------------------------------------------------------
// generation

func caseFromWorkspace(ws *protogen.Workspace) *Case {
	rw := ws.Render()
	c := &Case{Files: rw.ByModule, Specs: map[string]bufx.ModuleSpec{}, Imports: map[string][]string{}, PlantedUnused: map[string][]string{}, Packages: map[string]string{}, Public: map[string][]string{}}
	for _, m := range ws.Modules {
		c.Modules = append(c.Modules, CaseModule{Dir: m.Dir, Name: m.Name})
		for _, f := range m.Files {
			imps := []string{}
			for _, i := range f.Imports {
				imps = append(imps, i.Path)
				if i.Public {
					c.Public[f.Path] = append(c.Public[f.Path], i.Path)
				}
				if i.Unused {
					c.PlantedUnused[f.Path] = append(c.PlantedUnused[f.Path], i.Path)
				}
			}
			c.Imports[f.Path] = imps
			c.Packages[f.Path] = f.Package
			if f.Syntax == protogen.SyntaxUnspecified {
				c.NoSyntax = append(c.NoSyntax, f.Path)
			}
		}
	}
	return c
}

func dirsOf(paths []string) []string {
	set := map[string]bool{}
	for _, p := range paths {
		for d := filepath.ToSlash(filepath.Dir(p)); d != "." && d != "/"; d = filepath.ToSlash(filepath.Dir(d)) {
			set[d] = true
		}
	}
	return protogen.SortedKeys(set)
}

func genSpecs(t *rapid.T, c *Case) {
	nTarget := 0
	for i, m := range c.Modules {
		isTarget := rapid.IntRange(0, 9).Draw(t, "istarget") < 7
		if i == len(c.Modules)-1 && nTarget == 0 {
			isTarget = true
		}
		spec := bufx.ModuleSpec{Target: isTarget}
		if isTarget {
			nTarget++
			paths := protogen.SortedPaths(c.Files[m.Dir])
			cands := append(append([]string{}, paths...), dirsOf(paths)...)
			// sibling directories where one name is a string prefix of the other (x/v1, x/v1beta1): both as --path
			var sib [][2]string
			ds := dirsOf(paths)
			for _, a := range ds {
				for _, b := range ds {
					if a != b && strings.HasPrefix(b, a) && !under(a, b) {
						sib = append(sib, [2]string{a, b})
					}
				}
			}
			if len(sib) > 0 && rapid.Bool().Draw(t, "siblingpaths") {
				pr := sib[rapid.IntRange(0, len(sib)-1).Draw(t, "sibpair")]
				spec.TargetPaths = []string{pr[0], pr[1]}
				if rapid.Bool().Draw(t, "sibswap") {
					spec.TargetPaths = []string{pr[1], pr[0]}
				}
				evid.R().Class("spec:sibling-prefix-paths")
				c.Specs[m.Dir] = spec
				continue
			}
			switch rapid.IntRange(0, 9).Draw(t, "specmode") {
			case 0, 1, 2, 3: // everything
			case 4, 5, 6, 7: // paths / excludes
				nInc := rapid.IntRange(0, 2).Draw(t, "ninc")
				nExc := rapid.IntRange(0, 2).Draw(t, "nexc")
				if nInc == 0 && nExc == 0 {
					nInc = 1
				}
				inc := map[string]bool{}
				for k := 0; k < nInc; k++ {
					inc[cands[rapid.IntRange(0, len(cands)-1).Draw(t, "inc")]] = true
				}
				exc := map[string]bool{}
				for k := 0; k < nExc; k++ {
					e := cands[rapid.IntRange(0, len(cands)-1).Draw(t, "exc")]
					// precondition of the documented interface: a --path never lies inside (or equals) an --exclude-path
					ok := true
					for i := range inc {
						if under(e, i) {
							ok = false
						}
					}
					if ok {
						exc[e] = true
					}
				}
				spec.TargetPaths = protogen.SortedKeys(inc)
				spec.ExcludePaths = protogen.SortedKeys(exc)
			default: // proto file ref
				spec.ProtoFile = paths[rapid.IntRange(0, len(paths)-1).Draw(t, "protofile")]
				// prefer a file without package when there are several (its "package" has no other members)
				var bare []string
				for _, p := range paths {
					if c.Packages[p] == "" {
						bare = append(bare, p)
					}
				}
				if len(bare) >= 2 && rapid.Bool().Draw(t, "protofile-bare") {
					spec.ProtoFile = bare[rapid.IntRange(0, len(bare)-1).Draw(t, "protofile-bare-idx")]
					evid.R().Class("spec:proto-file-ref-without-package")
				}
				spec.IncludePkg = rapid.Bool().Draw(t, "incpkg")
			}
		}
		c.Specs[m.Dir] = spec
	}
	if len(refTargets(c)) == 0 {
		// a selection that targets nothing is the documented "no .proto target files" error, not a buildable input
		for _, m := range c.Modules {
			c.Specs[m.Dir] = bufx.ModuleSpec{Target: true}
		}
	}
}

// maybeSupplyWKT adds a workspace-supplied copy of a well-known-type path to a module.
func maybeSupplyWKT(t *rapid.T, ws *protogen.Workspace) bool {
	if rapid.IntRange(0, 9).Draw(t, "supplywkt") != 0 {
		return false
	}
	m := ws.Modules[rapid.IntRange(0, len(ws.Modules)-1).Draw(t, "wktmod")]
	f := &protogen.File{ID: "wktfile", Path: "google/protobuf/duration.proto", Syntax: protogen.Proto3, Package: "google.protobuf"}
	f.Messages = []*protogen.Message{{ID: "wktmsg", Name: "Duration", Comment: "workspace-supplied Duration.", Fields: []*protogen.Field{
		{ID: "wktf1", Name: "seconds", Number: 1, Type: "int64", TypeKind: "scalar"},
		{ID: "wktf2", Name: "nanos", Number: 2, Type: "int32", TypeKind: "scalar"},
		{ID: "wktf3", Name: "verif_extra", Number: 3, Type: "string", TypeKind: "scalar"},
	}}}
	m.Files = append(m.Files, f)
	return true
}

func genCase(t *rapid.T, cfg protogen.GenConfig) (*Case, *protogen.Workspace) {
	ws := protogen.GenWorkspace(t, cfg)
	supplied := maybeSupplyWKT(t, ws)
	c := caseFromWorkspace(ws)
	genSpecs(t, c)
	c.Backend = []string{"mem", "mem", "mem", "disk"}[rapid.IntRange(0, 3).Draw(t, "backend")]
	if supplied {
		evid.R().Class("workspace-supplies-wkt")
	}
	return c, ws
}

func classify(r *evid.Recorder, c *Case) {
	targets := refTargets(c)
	total, edges := 0, 0
	for p, imps := range c.Imports {
		_ = p
		total++
		edges += len(imps)
	}
	r.Class(fmt.Sprintf("modules-%d", len(c.Modules)))
	if len(targets) < total {
		r.Class("strict-subset-targeted")
	}
	for _, s := range c.Specs {
		switch {
		case !s.Target:
			r.Class("spec:non-target-module")
		case s.ProtoFile != "":
			r.Class("spec:proto-file-ref")
		case len(s.TargetPaths) > 0 || len(s.ExcludePaths) > 0:
			r.Class("spec:paths")
		default:
			r.Class("spec:whole-module")
		}
	}
	if len(c.NoSyntax) > 0 {
		r.Class("has-syntax-unspecified")
	}
	if len(c.PlantedUnused) > 0 {
		r.Class("has-planted-unused-import")
	}
	r.Class("backend:" + c.Backend)
	if c.CLI != nil {
		classifyCLI(r, c)
	}
	if total >= 2 && edges >= 1 && len(targets) < total {
		r.NonTrivial(fmt.Sprintf("%v|%v|%v|%s", c.Files, c.Specs, c.Backend, cliCanon(c)))
	}
}

func sampleOf(c *Case) map[string]any {
	paths := []string{}
	for _, files := range c.Files {
		for p := range files {
			paths = append(paths, p)
		}
	}
	sort.Strings(paths)
	out := map[string]any{"files": paths, "imports": c.Imports, "specs": c.Specs, "backend": c.Backend}
	if c.CLI != nil {
		out["cli"] = c.CLI
	}
	return out
}

func TestImage(t *testing.T) {
	r := evid.R()
	ctx := context.Background()
	cfg := protogen.DefaultConfig()
	if r.Thorough() {
		cfg.MaxModules, cfg.MaxFiles, cfg.MaxPackages = 5, 12, 6
	}
	r.Check(t, r.Scale(1500, 16000), 1, func(t *rapid.T) {
		cfg := cfg
		// a fifth of the workspaces: several packages per directory and many files without a package statement
		if rapid.IntRange(0, 4).Draw(t, "shareddirs") == 0 {
			cfg.SharedDirs, cfg.NoPackagePct = true, 30
		}
		c, _ := genCase(t, cfg)
		runSuccess(ctx, t, r, c)
	})
}

func runSuccess(ctx context.Context, t interface {
	Fatalf(string, ...any)
	Helper()
}, r *evid.Recorder, c *Case) {
	tmp := ""
	if c.Backend != "mem" {
		var err error
		tmp, err = os.MkdirTemp("", "c01-")
		if err != nil {
			t.Fatalf("harness: %v", err)
		}
		defer os.RemoveAll(tmp)
	}
	img, err, _ := buildCase(ctx, t, c, tmp)
	r.Eval()
	classify(r, c)
	r.Sample(sampleOf(c))
	if err != nil {
		key := "build-failed"
		if c.CLI != nil {
			key += ":cli-" + c.CLI.group()
		}
		r.Fail(t, key, fmt.Sprintf("a buildable workspace failed to build: %v", err), c)
		return
	}
	if key, msg := checkImage(ctx, c, img); key != "" {
		if key == "harness" {
			t.Fatalf("harness: %s", msg)
		}
		if c.CLI != nil {
			// command-line cases: the input kind is part of the root-cause classifier
			key += ":cli-" + c.CLI.group()
			if ab := excludesAboveModules(c); len(ab) > 0 {
				// is the image what one gets when the --exclude-path values above module directories are dropped?
				alt := *c
				sel := *c.CLI
				sel.Excludes = nil
				for _, e := range c.CLI.Excludes {
					if !under2(ab, e) {
						sel.Excludes = append(sel.Excludes, e)
					}
				}
				alt.CLI = &sel
				if k2, _ := checkImage(ctx, &alt, img); k2 == "" {
					// open known finding: decided by the input shape (an exclude that is a strict ancestor of a
					// module directory) AND the symptom (the image is exactly what the remaining flags select);
					// any other wrong image under the same shape keeps its ordinary key
					key = keyExcludeAbove
					r.Excluded(keyExcludeAbove)
					msg = fmt.Sprintf("--exclude-path %v names a directory that contains whole module directories; it was silently ignored: %s", ab, msg)
				}
			}
			msg = fmt.Sprintf("[%s input, buf.yaml=%v, strip_components=%d, subdir=%q, --path %v --exclude-path %v] %s", c.CLI.Kind, !c.CLI.NoConfig, c.CLI.Strip, c.CLI.subDir(), c.CLI.Paths, c.CLI.Excludes, msg)
		}
		r.Fail(t, key, msg, c)
	}
}

// TestCLI builds a sample of workspaces through `buf build <input> -o -` with a drawn input kind
// (directory, archive, git; wrapped / #subdir / #strip_components) and --path/--exclude-path selection.
func TestCLI(t *testing.T) {
	r := evid.R()
	ctx := context.Background()
	cfg := protogen.DefaultConfig()
	r.Check(t, r.Scale(80, 1600), 2, func(t *rapid.T) {
		ws := protogen.GenWorkspace(t, cfg)
		maybeSupplyWKT(t, ws)
		c := caseFromWorkspace(ws)
		c.Backend = "cli"
		genCLISel(t, c)
		runSuccess(ctx, t, r, c)
	})
}

// ---------------------------------------------------------------------------------------------
// error mode: one planted compile error

func TestCompileError(t *testing.T) {
	r := evid.R()
	ctx := context.Background()
	cfg := protogen.DefaultConfig()
	cfg.UnusedImports = false
	r.Check(t, r.Scale(900, 8000), 3, func(t *rapid.T) {
		ws := protogen.GenWorkspace(t, cfg)
		rw := ws.Render()
		c := caseFromWorkspace(ws)
		// every module targeted, so the erroneous file is either a target or reached through imports of targets
		// choose a field to break
		type cand struct {
			file *protogen.File
			fld  *protogen.Field
		}
		var cands []cand
		for _, f := range ws.AllFiles() {
			f.WalkMessages(func(m protogen.MsgRef) {
				for _, fld := range m.Msg.Fields {
					if fld.TypeKind != "group" && fld.MapKey == "" {
						cands = append(cands, cand{f, fld})
					}
				}
			})
		}
		if len(cands) == 0 {
			t.Skip("no field to break")
		}
		cd := cands[rapid.IntRange(0, len(cands)-1).Draw(t, "errfield")]
		ep := rw.Pos[cd.fld.ID]
		mod := ws.ModuleOf(cd.file)
		txt := c.Files[mod.Dir][cd.file.Path]
		lines := strings.Split(txt, "\n")
		line := lines[ep.Type.Line-1]
		kind := []string{"unknown-type", "duplicate-number-zero", "syntax-error", "statement-no-semicolon"}[rapid.IntRange(0, 3).Draw(t, "errkind")]
		if kind == "statement-no-semicolon" {
			// a package or import statement without its semicolon: reported by whatever reads the file first
			// (the import scanner for package-file targeting and dependency computation, else the parser)
			var stmts []int
			for i, l := range lines {
				if (strings.HasPrefix(l, "package ") || strings.HasPrefix(l, "import ")) && strings.HasSuffix(l, ";") {
					stmts = append(stmts, i)
				}
			}
			if len(stmts) == 0 {
				kind = "syntax-error"
			} else {
				i := stmts[rapid.IntRange(0, len(stmts)-1).Draw(t, "stmt")]
				lines[i] = strings.TrimSuffix(lines[i], ";")
				c.ErrFromCompiler = true
				line = lines[ep.Type.Line-1]
			}
		}
		switch kind {
		case "statement-no-semicolon":
		case "unknown-type":
			// replace the type token by an unresolvable name of the same position
			end := ep.Type.Col - 1 + len(typeTokenAt(line, ep.Type.Col-1))
			line = line[:ep.Type.Col-1] + ".nope.Missing" + line[end:]
			c.ErrLine, c.ErrCol, c.ErrEnd = ep.Type.Line, ep.Type.Col, ep.Type.Col+len(".nope.Missing")
		case "duplicate-number-zero":
			// field number 0 is invalid
			numTok := fmt.Sprintf("%d", cd.fld.Number)
			line = line[:ep.Num.Col-1] + "0" + line[ep.Num.Col-1+len(numTok):]
			c.ErrLine, c.ErrCol, c.ErrEnd = ep.Num.Line, ep.Start.Col, len(line)+1
		default:
			// a stray token in front of the field
			line = line[:ep.Start.Col-1] + "= " + line[ep.Start.Col-1:]
			c.ErrLine, c.ErrCol, c.ErrEnd = ep.Start.Line, ep.Start.Col, len(line)+1
		}
		lines[ep.Type.Line-1] = line
		c.Files[mod.Dir][cd.file.Path] = strings.Join(lines, "\n")
		c.ErrFile, c.ErrKind = cd.file.Path, kind
		// target selection: sometimes only a file that reaches the broken one through imports
		c.Backend = []string{"mem", "disk", "disk"}[rapid.IntRange(0, 2).Draw(t, "ebackend")]
		if rapid.IntRange(0, 15).Draw(t, "ecli") == 0 {
			c.Backend = "cli"
		}
		// sometimes the erroneous file itself is the target, as a proto file reference (with its package files)
		if rapid.IntRange(0, 2).Draw(t, "efileref") == 0 {
			if c.Backend == "cli" {
				c.CLIFileRef = true
			} else {
				c.Specs[mod.Dir] = bufx.ModuleSpec{Target: true, ProtoFile: cd.file.Path, IncludePkg: rapid.Bool().Draw(t, "eincludepkg")}
			}
		}
		runError(ctx, t, r, c)
	})
}

func typeTokenAt(line string, i int) string {
	j := i
	for j < len(line) && line[j] != ' ' {
		j++
	}
	return line[i:j]
}

func runError(ctx context.Context, t interface {
	Fatalf(string, ...any)
	Helper()
}, r *evid.Recorder, c *Case) {
	tmp := ""
	if c.Backend != "mem" {
		var err error
		tmp, err = os.MkdirTemp("", "c01e-")
		if err != nil {
			t.Fatalf("harness: %v", err)
		}
		defer os.RemoveAll(tmp)
	}
	// reference: the direct compiler must also reject it, and tells where
	targets := refTargets(c)
	var tlist []string
	for p := range targets {
		tlist = append(tlist, p)
	}
	ref := refcompile.Compile(ctx, allSources(c), tlist, true)
	if ref.Err == nil || len(ref.Errors) == 0 {
		t.Fatalf("harness: planted error %s in %s was accepted by the compiler", c.ErrKind, c.ErrFile)
	}
	if c.ErrFromCompiler {
		e0 := ref.Errors[0]
		if e0.File != c.ErrFile {
			t.Fatalf("harness: compiler reports the planted %s in %s, not in %s", c.ErrKind, e0.File, c.ErrFile)
		}
		c.ErrLine, c.ErrCol, c.ErrEnd = e0.Line, e0.Col, e0.Col
	}
	img, err, _ := buildCase(ctx, t, c, tmp)
	r.Eval()
	r.Class("error:" + c.ErrKind)
	if c.CLIFileRef || c.Specs[moduleOf(c, c.ErrFile).Dir].ProtoFile != "" {
		r.Class("error-target:proto-file-ref")
	}
	r.Class("error-backend:" + c.Backend)
	m := moduleOf(c, c.ErrFile)
	files := protogen.SortedPaths(allSources(c))
	if len(files) > 0 && c.ErrFile != files[0] {
		r.NonTrivial(fmt.Sprintf("%v|%s|%d|%d|%s", c.Files, c.ErrFile, c.ErrLine, c.ErrCol, c.Backend))
	}
	r.Sample(map[string]any{"err_file": c.ErrFile, "kind": c.ErrKind, "line": c.ErrLine, "col": c.ErrCol, "backend": c.Backend})
	if err == nil {
		_ = img
		r.Fail(t, "error-not-reported", fmt.Sprintf("workspace with a planted %s at %s:%d:%d produced an image", c.ErrKind, c.ErrFile, c.ErrLine, c.ErrCol), c)
		return
	}
	wantExt := c.ErrFile
	switch c.Backend {
	case "disk":
		wantExt = filepath.Join(tmp, filepath.FromSlash(m.Dir), filepath.FromSlash(c.ErrFile))
	case "cli":
		wantExt = filepath.Join(tmp, filepath.FromSlash(m.Dir), filepath.FromSlash(c.ErrFile))
	}
	if ce, ok := err.(*cliError); ok {
		if ce.code != 100 {
			r.Fail(t, "cli-exit-code", fmt.Sprintf("buf build on a workspace that does not compile exited %d, want 100; stderr=%s", ce.code, ce.stderr), c)
			return
		}
		// stderr lines: path:line:col:message
		found := false
		for _, l := range strings.Split(ce.stderr, "\n") {
			if strings.HasPrefix(l, wantExt+":") {
				rest := strings.SplitN(strings.TrimPrefix(l, wantExt+":"), ":", 3)
				if len(rest) >= 2 {
					var ln, cl int
					fmt.Sscanf(rest[0], "%d", &ln)
					fmt.Sscanf(rest[1], "%d", &cl)
					if ln == c.ErrLine && cl >= c.ErrCol && cl <= c.ErrEnd {
						found = true
					}
				}
			}
		}
		if !found {
			r.Fail(t, "error-position-cli", fmt.Sprintf("buf build stderr has no diagnostic at %s:%d:[%d..%d]: %q", wantExt, c.ErrLine, c.ErrCol, c.ErrEnd, ce.stderr), c)
		}
		return
	}
	anns, other := bufx.Annotations(err)
	if other != nil {
		r.Fail(t, "error-not-annotation", fmt.Sprintf("planted %s: BuildImage returned a non-annotation error: %v", c.ErrKind, other), c)
		return
	}
	// external path: FileInfo.ExternalPath of the annotation
	found := false
	for _, a := range anns {
		if a.Path == c.ErrFile && a.Line == c.ErrLine && a.Col >= c.ErrCol && a.Col <= c.ErrEnd {
			if a.External != wantExt {
				r.Fail(t, "error-external-path", fmt.Sprintf("diagnostic for %s carries external path %q, the user gave %q", c.ErrFile, a.External, wantExt), c)
				return
			}
			found = true
		}
	}
	if !found {
		r.Fail(t, "error-position", fmt.Sprintf("planted %s at %s:%d:[%d..%d]; diagnostics: %v (compiler says %v)", c.ErrKind, c.ErrFile, c.ErrLine, c.ErrCol, c.ErrEnd, anns, ref.Errors), c)
		return
	}
	// differential: the first compiler error position is among buf's annotations
	e0 := ref.Errors[0]
	ok := false
	for _, a := range anns {
		if a.Path == e0.File && a.Line == e0.Line && a.Col == e0.Col {
			ok = true
		}
	}
	if !ok {
		r.Fail(t, "error-position-differs-from-compiler", fmt.Sprintf("compiler reports %v, buf reports %v", e0, anns), c)
	}
}

func TestReplay(t *testing.T) {
	var c Case
	ok, err := evid.ReplayCase(&c)
	if !ok {
		t.Skip("no VERIF_REPLAY")
	}
	if err != nil {
		t.Fatal(err)
	}
	r := evid.R()
	defer r.Begin(t)()
	if c.ErrFile != "" {
		runError(context.Background(), t, r, &c)
	} else {
		runSuccess(context.Background(), t, r, &c)
	}
}
