// C01, command-line domain: the generated workspace is handed to `buf build <input> -o -` as a
// directory (absolute, or relative to the working directory), as a tar / tar.gz / zip archive or as a
// local git repository, optionally wrapped in extra leading directories that are removed again with
// #strip_components=N and/or addressed with #subdir=<dir>, together with drawn --path / --exclude-path
// selections over files, directories, module directories and directories above modules.
//
// How a selection is written for each input kind (buffetch reader.go: "For archive and git refs,
// target paths and target exclude paths are expected to be mapped to the inputSubDirPath rather than
// the execution context"; cmd/buf workspace_test.go TestWorkspaceArchiveDir, workspace_unix_test.go
// TestWorkspaceGit):
//   - directory input: the path as the user would type it, i.e. relative to the working directory or
//     absolute (here: <input dir>/<workspace-relative path>);
//   - archive / git input: relative to the #subdir of the input (after strip_components), i.e. here the
//     workspace-relative path itself.
//
// The oracle is the same for every kind: refTargets / refClosure / checkImage.
package c01

import (
	"archive/tar"
	"archive/zip"
	"bytes"
	"compress/gzip"
	"context"
	"fmt"
	"os"
	"os/exec"
	"path"
	"path/filepath"
	"strings"
	"testing"

	"github.com/bufbuild/buf/private/bufpkg/bufimage"
	imagev1 "github.com/bufbuild/buf/private/gen/proto/go/buf/alpha/image/v1"
	"github.com/bufbuild/buf/private/pkg/osext"
	"github.com/bufbuild/bufverif/internal/bufcli"
	"github.com/bufbuild/bufverif/internal/evid"
	"github.com/bufbuild/bufverif/internal/protogen"
	"google.golang.org/protobuf/proto"
	"pgregory.net/rapid"
)

// CLISel says how the workspace reaches `buf build` and which files are selected.
type CLISel struct {
	// Kind: dir (absolute directory) | dir-rel (directory relative to the working directory) |
	// tar | tar.gz | zip | git
	Kind string `json:"kind"`
	// Wrap: extra leading directories around the workspace inside the archive / repository
	Wrap []string `json:"wrap,omitempty"`
	// Strip: #strip_components=N (archives only, N <= len(Wrap)); what is left of Wrap is the #subdir
	Strip int `json:"strip,omitempty"`
	// NoConfig: a single unnamed module whose files sit directly at the input root, without any buf.yaml
	NoConfig bool `json:"no_config,omitempty"`
	// Paths / Excludes: --path / --exclude-path values, relative to the workspace root
	Paths    []string `json:"paths,omitempty"`
	Excludes []string `json:"excludes,omitempty"`
}

func (s *CLISel) subDir() string {
	if s.Strip >= len(s.Wrap) {
		return ""
	}
	return path.Join(s.Wrap[s.Strip:]...)
}

// wsDir is the directory of a module relative to the workspace root.
func (s *CLISel) wsDir(m CaseModule) string {
	if s.NoConfig {
		return "."
	}
	return m.Dir
}

func (s *CLISel) group() string {
	g := "dir"
	switch s.Kind {
	case "tar", "tar.gz", "zip":
		g = "archive"
	case "git":
		g = "git"
	}
	if s.subDir() != "" {
		g += "+subdir"
	}
	return g
}

func (s *CLISel) mode() string {
	switch {
	case len(s.Paths) > 0 && len(s.Excludes) > 0:
		return "path+exclude"
	case len(s.Paths) > 0:
		return "path-only"
	case len(s.Excludes) > 0:
		return "exclude-only"
	}
	return "none"
}

// refTargetsCLI: the documented meaning of --path / --exclude-path: a file is targeted iff it lies
// under (or is) some --path (every file if no --path is given) and under no --exclude-path.
func refTargetsCLI(c *Case) map[string]bool {
	t := map[string]bool{}
	for _, m := range c.Modules {
		for p := range c.Files[m.Dir] {
			full := path.Join(c.CLI.wsDir(m), p)
			inc := len(c.CLI.Paths) == 0
			for _, tp := range c.CLI.Paths {
				if under(tp, full) {
					inc = true
				}
			}
			for _, ep := range c.CLI.Excludes {
				if under(ep, full) {
					inc = false
				}
			}
			if inc {
				t[p] = true
			}
		}
	}
	return t
}

const keyExcludeAbove = "exclude-path-above-module-dir-ignored"

// excludesAboveModules returns the --exclude-path values that are directories strictly above a module directory.
func excludesAboveModules(c *Case) []string {
	var out []string
	for _, e := range c.CLI.Excludes {
		for _, m := range c.Modules {
			if d := c.CLI.wsDir(m); d != "." && e != d && under(e, d) {
				out = append(out, e)
				break
			}
		}
	}
	return out
}

var gitPath = func() string {
	p, err := exec.LookPath("git")
	if err != nil {
		return ""
	}
	return p
}()

// genCLISel draws input kind, wrapping and selection for a generated workspace.
func genCLISel(t *rapid.T, c *Case) {
	s := &CLISel{}
	kinds := []string{"dir", "dir-rel", "tar", "tar.gz", "zip", "tar", "zip"}
	if gitPath != "" {
		kinds = append(kinds, "git")
	}
	s.Kind = kinds[protogen.FairIntn(t, "kind", 0, len(kinds)-1)]
	if s.Kind != "dir" && s.Kind != "dir-rel" {
		names := []string{"pkg-1.2", "proto", "src", "vendor"}
		n := []int{0, 1, 1, 2}[protogen.FairIntn(t, "nwrap", 0, 3)]
		for i := 0; i < n; i++ {
			s.Wrap = append(s.Wrap, names[protogen.FairIntn(t, "wrapname", 0, len(names)-1)])
		}
		if s.Kind != "git" && n > 0 && protogen.FairPct(t, "strip", 35) {
			s.Strip = protogen.FairIntn(t, "nstrip", 1, n)
		}
	}
	if len(c.Modules) == 1 && protogen.FairPct(t, "noconfig", 40) {
		s.NoConfig = true
		c.Modules[0].Name = "" // a module name needs a buf.yaml
	}
	c.CLI = s
	// candidates: files and directories inside modules. Preconditions of the documented interface: a module
	// directory itself is rejected by both flags ("module ... was specified with --path, specify this module
	// path directly as an input"), and a --path that is a directory above module directories is rejected
	// with "no .proto files were targeted" (no image, hence outside this property).
	set := map[string]bool{}
	var modDirs []string
	for _, m := range c.Modules {
		if !s.NoConfig {
			modDirs = append(modDirs, m.Dir+"/x")
		}
		paths := protogen.SortedPaths(c.Files[m.Dir])
		for _, p := range paths {
			set[path.Join(s.wsDir(m), p)] = true
		}
		for _, d := range dirsOf(paths) {
			set[path.Join(s.wsDir(m), d)] = true
		}
	}
	cands := protogen.SortedKeys(set)
	// directories above module directories (src, src/alpha for a module src/alpha/v0): occasionally as --exclude-path
	above := map[string]bool{}
	for _, d := range dirsOf(modDirs) {
		above[d] = true
	}
	for _, m := range c.Modules {
		delete(above, m.Dir)
	}
	excCands := cands
	if len(above) > 0 && protogen.FairPct(t, "excabove", 8) {
		excCands = protogen.SortedKeys(above)
	}
	nInc, nExc := 0, 0
	switch protogen.FairIntn(t, "selmode", 0, 9) {
	case 0, 1: // none
	case 2, 3, 4: // exclude-only
		nExc = protogen.FairIntn(t, "nexc", 1, 2)
	case 5, 6: // path-only
		nInc = protogen.FairIntn(t, "ninc", 1, 2)
	default:
		nInc = protogen.FairIntn(t, "ninc", 1, 2)
		nExc = protogen.FairIntn(t, "nexc", 1, 2)
	}
	inc := map[string]bool{}
	for k := 0; k < nInc; k++ {
		inc[cands[protogen.FairIntn(t, "inc", 0, len(cands)-1)]] = true
	}
	exc := map[string]bool{}
	for k := 0; k < nExc; k++ {
		e := excCands[protogen.FairIntn(t, "exc", 0, len(excCands)-1)]
		// precondition of the documented interface: a --path never lies inside (or equals) an --exclude-path
		ok := true
		for i := range inc {
			if under(e, i) {
				ok = false
			}
		}
		if ok {
			exc[e] = true
		}
	}
	s.Paths, s.Excludes = protogen.SortedKeys(inc), protogen.SortedKeys(exc)
	c.CLI = s
	if len(refTargetsCLI(c)) == 0 {
		// a selection that targets nothing is the documented "no .proto target files" error, not a buildable input
		s.Paths, s.Excludes = nil, nil
	}
}

// workspaceEntries: workspace-relative path -> content (buf.yaml + every module file).
func workspaceEntries(c *Case) map[string]string {
	var y strings.Builder
	y.WriteString("version: v2\nmodules:\n")
	out := map[string]string{}
	for _, m := range c.Modules {
		fmt.Fprintf(&y, "  - path: %s\n", m.Dir)
		if m.Name != "" {
			fmt.Fprintf(&y, "    name: %s\n", m.Name)
		}
		for p, txt := range c.Files[m.Dir] {
			out[path.Join(c.CLI.wsDir(m), p)] = txt
		}
	}
	if !c.CLI.NoConfig {
		out["buf.yaml"] = y.String()
	}
	return out
}

func writeTree(root string, entries map[string]string) error {
	for p, txt := range entries {
		full := filepath.Join(root, filepath.FromSlash(p))
		if err := os.MkdirAll(filepath.Dir(full), 0o755); err != nil {
			return err
		}
		if err := os.WriteFile(full, []byte(txt), 0o644); err != nil {
			return err
		}
	}
	return nil
}

func tarBytes(entries map[string]string, gz bool) ([]byte, error) {
	var buf bytes.Buffer
	var w = (interface {
		Write([]byte) (int, error)
	})(&buf)
	var zw *gzip.Writer
	if gz {
		zw = gzip.NewWriter(&buf)
		w = zw
	}
	tw := tar.NewWriter(w)
	for _, p := range protogen.SortedPaths(entries) {
		if err := tw.WriteHeader(&tar.Header{Name: p, Mode: 0o644, Size: int64(len(entries[p])), Typeflag: tar.TypeReg}); err != nil {
			return nil, err
		}
		if _, err := tw.Write([]byte(entries[p])); err != nil {
			return nil, err
		}
	}
	if err := tw.Close(); err != nil {
		return nil, err
	}
	if zw != nil {
		if err := zw.Close(); err != nil {
			return nil, err
		}
	}
	return buf.Bytes(), nil
}

func zipBytes(entries map[string]string) ([]byte, error) {
	var buf bytes.Buffer
	zw := zip.NewWriter(&buf)
	for _, p := range protogen.SortedPaths(entries) {
		w, err := zw.Create(p)
		if err != nil {
			return nil, err
		}
		if _, err := w.Write([]byte(entries[p])); err != nil {
			return nil, err
		}
	}
	if err := zw.Close(); err != nil {
		return nil, err
	}
	return buf.Bytes(), nil
}

const outsideProto = "syntax = \"proto3\";\npackage zz_outside;\nmessage Outside {}\n"

// wrapped puts the workspace under the leading directories; when a #subdir remains, a file that lies
// outside of it (but inside the archive / repository) is added: it must never reach the image.
func wrapped(s *CLISel, entries map[string]string) map[string]string {
	out := map[string]string{}
	prefix := path.Join(s.Wrap...)
	for p, txt := range entries {
		out[path.Join(prefix, p)] = txt
	}
	if s.subDir() != "" {
		out[path.Join(path.Join(s.Wrap[:s.Strip]...), "zz_outside", "zz_outside.proto")] = outsideProto
	}
	return out
}

func git(dir string, args ...string) error {
	cmd := exec.Command(gitPath, args...)
	cmd.Dir = dir
	cmd.Env = []string{"HOME=" + dir, "PATH=" + os.Getenv("PATH"), "GIT_CONFIG_NOSYSTEM=1",
		"GIT_AUTHOR_NAME=verif", "GIT_AUTHOR_EMAIL=verif@example.com", "GIT_COMMITTER_NAME=verif", "GIT_COMMITTER_EMAIL=verif@example.com",
		"GIT_AUTHOR_DATE=2020-01-01T00:00:00Z", "GIT_COMMITTER_DATE=2020-01-01T00:00:00Z"}
	if out, err := cmd.CombinedOutput(); err != nil {
		return fmt.Errorf("git %v: %v: %s", args, err, out)
	}
	return nil
}

// buildCLISel materialises the input of the drawn kind and runs `buf build <input> -o - [--path ...] [--exclude-path ...]` in-process.
func buildCLISel(ctx context.Context, t interface{ Fatalf(string, ...any) }, c *Case, tmp string) (bufimage.Image, error, string) {
	s := c.CLI
	home := filepath.Join(tmp, "home")
	if err := os.MkdirAll(home, 0o755); err != nil {
		t.Fatalf("harness: %v", err)
	}
	env := map[string]string{"HOME": home, "BUF_CACHE_DIR": filepath.Join(home, ".cache"), "PATH": os.Getenv("PATH")}
	entries := workspaceEntries(c)
	var input string
	arg := func(p string) string { return p }
	var opts []string
	if s.Strip > 0 {
		opts = append(opts, fmt.Sprintf("strip_components=%d", s.Strip))
	}
	if sd := s.subDir(); sd != "" {
		opts = append(opts, "subdir="+sd)
	}
	switch s.Kind {
	case "dir", "dir-rel":
		root := filepath.Join(tmp, "ws")
		if err := writeTree(root, entries); err != nil {
			t.Fatalf("harness: %v", err)
		}
		input = root
		arg = func(p string) string { return filepath.Join(root, filepath.FromSlash(p)) }
		if s.Kind == "dir-rel" {
			wd, err := osext.Getwd()
			if err != nil {
				t.Fatalf("harness: %v", err)
			}
			if err := osext.Chdir(tmp); err != nil {
				t.Fatalf("harness: %v", err)
			}
			defer func() { _ = osext.Chdir(wd) }()
			input = "ws"
			arg = func(p string) string { return filepath.Join("ws", filepath.FromSlash(p)) }
		}
	case "tar", "tar.gz", "zip":
		var data []byte
		var err error
		if s.Kind == "zip" {
			data, err = zipBytes(wrapped(s, entries))
		} else {
			data, err = tarBytes(wrapped(s, entries), s.Kind == "tar.gz")
		}
		if err != nil {
			t.Fatalf("harness: %v", err)
		}
		input = filepath.Join(tmp, "input."+s.Kind)
		if err := os.WriteFile(input, data, 0o644); err != nil {
			t.Fatalf("harness: %v", err)
		}
	case "git":
		if gitPath == "" {
			t.Fatalf("harness: git input drawn but git is not installed")
		}
		repo := filepath.Join(tmp, "repo")
		if err := writeTree(repo, wrapped(s, entries)); err != nil {
			t.Fatalf("harness: %v", err)
		}
		for _, a := range [][]string{{"init", "-q", "-b", "main"}, {"add", "-A"}, {"commit", "-q", "-m", "initial"}} {
			if err := git(repo, a...); err != nil {
				t.Fatalf("harness: %v", err)
			}
		}
		input = filepath.Join(repo, ".git")
		opts = append([]string{"branch=main"}, opts...)
	default:
		t.Fatalf("harness: unknown CLI input kind %q", s.Kind)
	}
	if len(opts) > 0 {
		input += "#" + strings.Join(opts, ",")
	}
	args := []string{"build", input, "-o", "-"}
	for _, p := range s.Paths {
		args = append(args, "--path", arg(p))
	}
	for _, p := range s.Excludes {
		args = append(args, "--exclude-path", arg(p))
	}
	code, stdout, stderr := bufcli.Run(ctx, env, "", args...)
	if code != 0 {
		return nil, &cliError{code: code, stderr: "buf " + strings.Join(args, " ") + ": " + stderr}, tmp
	}
	pi := &imagev1.Image{}
	if err := proto.Unmarshal([]byte(stdout), pi); err != nil {
		t.Fatalf("harness: cannot unmarshal buf build output: %v", err)
	}
	img, err := bufimage.NewImageForProto(pi)
	if err != nil {
		t.Fatalf("harness: NewImageForProto: %v", err)
	}
	return img, nil, tmp
}

func classifyCLI(r *evid.Recorder, c *Case) {
	s := c.CLI
	r.Class("cli-kind:" + s.Kind)
	r.Class("cli-sel:" + s.mode())
	r.Class("cli-input:" + s.group())
	if s.NoConfig {
		r.Class("cli-no-buf-yaml")
	}
	if s.Strip > 0 {
		r.Class("cli-strip-components")
	}
	// does every --exclude-path / --path matter? (an exclude that removes a file, a path that leaves one out)
	all := 0
	for _, files := range c.Files {
		all += len(files)
	}
	if len(excludesAboveModules(c)) > 0 {
		r.Class("cli-shape:exclude-above-module-dir")
	}
	if n := len(refTargetsCLI(c)); n < all {
		r.Class("cli-sel-effective:" + s.mode())
	}
}

func cliCanon(c *Case) string {
	if c.CLI == nil {
		return ""
	}
	return fmt.Sprintf("%+v", *c.CLI)
}

// TestExcludeAboveModuleDir is the directed regression of the open finding
// exclude-path-above-module-dir-ignored (minimal input; runs in one shard of every run).
func TestExcludeAboveModuleDir(t *testing.T) {
	r := evid.R()
	if !r.Mine(0) {
		t.Skip("runs in shard 0")
	}
	defer r.Begin(t)()
	a := "syntax = \"proto3\";\npackage a;\nmessage A {}\n"
	b := "syntax = \"proto3\";\npackage b;\nmessage B {}\n"
	for _, kind := range []string{"dir", "zip"} {
		c := &Case{
			Modules:  []CaseModule{{Dir: "src/a"}, {Dir: "other"}},
			Files:    map[string]map[string]string{"src/a": {"a.proto": a}, "other": {"b.proto": b}},
			Backend:  "cli",
			CLI:      &CLISel{Kind: kind, Excludes: []string{"src"}},
			Imports:  map[string][]string{"a.proto": {}, "b.proto": {}},
			Packages: map[string]string{"a.proto": "a", "b.proto": "b"},
		}
		runSuccess(context.Background(), t, r, c)
	}
}
