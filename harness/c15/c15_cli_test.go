// C15 part 3 — the commands that write files report write failures (in-process CLI).
//
// A generated workspace (1-3 modules, 2-7 .proto files with imports across modules, optionally
// vendored well-known-type files google/protobuf/*.proto inside a module and imports of
// well-known types that are NOT vendored) is written by
//
//	buf export <ws> -o <dir>   [--exclude-imports] [--path <file>]
//	buf build  <ws> -o <file>
//	buf format <ws> -o <dir>
//
// into a destination prepared with a natural fault at a drawn expected output file: a dangling
// symlink / a non-empty directory at the file's place, a regular file or a dangling symlink at
// its parent directory, the output path itself being a file or a dangling symlink, a read-only
// parent (skipped as root), or harmless preparations (stale file, symlink to an existing file,
// missing output directory, no fault).
//
// Oracle: the expected output comes from the generated workspace model (export: the files of the
// workspace, restricted to --path and its transitive in-workspace imports, never the
// non-vendored well-known types; build/format: the bytes of a run into a clean destination).
// Exit code 0 implies that every expected file is present byte for byte.
package c15

import (
	"context"
	"encoding/json"
	"fmt"
	"os"
	"path/filepath"
	"sort"
	"strings"
	"testing"

	"github.com/bufbuild/buf/private/gen/data/datawkt"
	"github.com/bufbuild/buf/private/pkg/storage"
	"github.com/bufbuild/bufverif/internal/bufcli"
	"github.com/bufbuild/bufverif/internal/evid"
	"github.com/bufbuild/bufverif/internal/faultx"
	"pgregory.net/rapid"
)

type cliFile struct {
	Module  int      `json:"module"`
	Path    string   `json:"path"` // module relative = import path
	Imports []string `json:"imports,omitempty"`
	Pad     int      `json:"pad"` // bytes of trailing comment
}

type cliCase struct {
	Cmd            string    `json:"cmd"`     // export | build | format
	Modules        []string  `json:"modules"` // module directories relative to the workspace ("." for a single root module)
	Files          []cliFile `json:"files"`
	Vendored       []string  `json:"vendored,omitempty"` // well-known-type paths vendored into module 0
	ExcludeImports bool      `json:"exclude_imports"`
	PathArg        int       `json:"path_arg"` // index into Files for --path, -1 = none
	Fault          string    `json:"fault"`
	Target         int       `json:"target"` // index into the sorted expected files
}

func (c cliCase) canon() string { b, _ := json.Marshal(c); return string(b) }

var wktTypes = map[string]string{
	"google/protobuf/any.proto":            "google.protobuf.Any",
	"google/protobuf/duration.proto":       "google.protobuf.Duration",
	"google/protobuf/empty.proto":          "google.protobuf.Empty",
	"google/protobuf/timestamp.proto":      "google.protobuf.Timestamp",
	"google/protobuf/field_mask.proto":     "google.protobuf.FieldMask",
	"google/protobuf/wrappers.proto":       "google.protobuf.StringValue",
	"google/protobuf/source_context.proto": "google.protobuf.SourceContext",
}

var cliFaults = []string{
	"none", "dangling-symlink-at-file", "dangling-symlink-at-file", "dangling-symlink-at-file",
	"dir-at-file", "file-at-parent", "dangling-symlink-at-parent", "out-is-file",
	"out-is-dangling-symlink", "out-missing", "readonly-parent", "stale-file-at-dest",
	"symlink-to-existing-file",
}

func genCLICase(t *rapid.T, cmd string) cliCase {
	c := cliCase{Cmd: cmd, PathArg: -1}
	nmod := rapid.IntRange(1, 3).Draw(t, "nmodules")
	if nmod == 1 && rapid.Bool().Draw(t, "rootmodule") {
		c.Modules = []string{"."}
	} else {
		for i := 0; i < nmod; i++ {
			c.Modules = append(c.Modules, fmt.Sprintf("mod%d", i))
		}
	}
	wkts := faultx.SortedKeys(wktTypes)
	if rapid.IntRange(0, 2).Draw(t, "vendor") != 0 {
		n := rapid.IntRange(1, 2).Draw(t, "nvendored")
		for _, i := range rapid.Permutation([]int{0, 1, 2, 3, 4, 5, 6}).Draw(t, "vendoredpick")[:n] {
			c.Vendored = append(c.Vendored, wkts[i])
		}
		sort.Strings(c.Vendored)
	}
	nfiles := rapid.IntRange(max(2, len(c.Modules)), 7).Draw(t, "nfiles")
	for i := 0; i < nfiles; i++ {
		// every module owns at least one file
		f := cliFile{Module: i}
		if i >= len(c.Modules) {
			f.Module = rapid.IntRange(0, len(c.Modules)-1).Draw(t, "module")
		}
		dir := rapid.SampledFrom([]string{"", "api/", "api/v1/", "x/y/z/"}).Draw(t, "dir")
		f.Path = fmt.Sprintf("%sm%d_f%d.proto", dir, f.Module, i)
		for j := 0; j < i; j++ {
			if rapid.IntRange(0, 2).Draw(t, "import") == 0 {
				f.Imports = append(f.Imports, c.Files[j].Path)
			}
		}
		for _, w := range wkts {
			if rapid.IntRange(0, 5).Draw(t, "wktimport") == 0 {
				f.Imports = append(f.Imports, w)
			}
		}
		f.Pad = rapid.SampledFrom([]int{0, 0, 10, 300, 33000, 70000}).Draw(t, "pad")
		c.Files = append(c.Files, f)
	}
	// a vendored well-known type is imported by somebody most of the time
	for _, v := range c.Vendored {
		if rapid.IntRange(0, 3).Draw(t, "usevendored") != 0 {
			i := rapid.IntRange(0, nfiles-1).Draw(t, "vendoreduser")
			if !contains(c.Files[i].Imports, v) {
				c.Files[i].Imports = append(c.Files[i].Imports, v)
			}
		}
	}
	if cmd == "export" {
		c.ExcludeImports = rapid.IntRange(0, 3).Draw(t, "excludeimports") == 0
		if rapid.IntRange(0, 3).Draw(t, "pathflag") == 0 {
			c.PathArg = rapid.IntRange(0, nfiles-1).Draw(t, "patharg")
		}
	}
	c.Fault = rapid.SampledFrom(cliFaults).Draw(t, "fault")
	c.Target = rapid.IntRange(0, 1<<16).Draw(t, "target")
	return c
}

func contains(xs []string, x string) bool {
	for _, y := range xs {
		if x == y {
			return true
		}
	}
	return false
}

func (c cliCase) render(i int) string {
	f := c.Files[i]
	var b strings.Builder
	fmt.Fprintf(&b, "syntax = \"proto3\";\n\npackage pkg%d;\n\n", i)
	imports := append([]string(nil), f.Imports...)
	sort.Strings(imports)
	for _, imp := range imports {
		fmt.Fprintf(&b, "import \"%s\";\n", imp)
	}
	fmt.Fprintf(&b, "\nmessage M%d {\n  string name = 1;\n", i)
	for n, imp := range imports {
		typ, ok := wktTypes[imp]
		if !ok {
			for j, g := range c.Files {
				if g.Path == imp {
					typ = fmt.Sprintf("pkg%d.M%d", j, j)
				}
			}
		}
		fmt.Fprintf(&b, "  %s f%d = %d;\n", typ, n, n+2)
	}
	b.WriteString("}\n")
	for b.Len() < 120+f.Pad && f.Pad > 0 {
		b.WriteString("// padding padding padding padding padding padding padding padding\n")
	}
	return b.String()
}

// writeWorkspace creates the workspace on disk and returns path -> content of every .proto file
// of the workspace by import path.
func (c cliCase) writeWorkspace(ws string) (map[string][]byte, error) {
	all := map[string][]byte{}
	var y strings.Builder
	y.WriteString("version: v2\nmodules:\n")
	for _, m := range c.Modules {
		fmt.Fprintf(&y, "  - path: %s\n", m)
		if err := os.MkdirAll(filepath.Join(ws, m), 0o755); err != nil {
			return nil, err
		}
	}
	if err := os.WriteFile(filepath.Join(ws, "buf.yaml"), []byte(y.String()), 0o644); err != nil {
		return nil, err
	}
	put := func(module int, p string, data []byte) error {
		full := filepath.Join(ws, c.Modules[module], filepath.FromSlash(p))
		if err := os.MkdirAll(filepath.Dir(full), 0o755); err != nil {
			return err
		}
		all[p] = data
		return os.WriteFile(full, data, 0o644)
	}
	for i, f := range c.Files {
		if err := put(f.Module, f.Path, []byte(c.render(i))); err != nil {
			return nil, err
		}
	}
	for _, v := range c.Vendored {
		data, err := storage.ReadPath(context.Background(), datawkt.ReadBucket, v)
		if err != nil {
			return nil, err
		}
		if err := put(0, v, data); err != nil {
			return nil, err
		}
	}
	return all, nil
}

// expectedExport is the reference: which files `buf export` must write.
func (c cliCase) expectedExport(all map[string][]byte) map[string][]byte {
	if c.PathArg < 0 {
		return all
	}
	out := map[string][]byte{}
	var visit func(p string)
	visit = func(p string) {
		if _, seen := out[p]; seen {
			return
		}
		data, ok := all[p]
		if !ok {
			return // a well-known type that is not part of the workspace is not exported
		}
		out[p] = data
		if c.ExcludeImports {
			return
		}
		for _, f := range c.Files {
			if f.Path == p {
				for _, imp := range f.Imports {
					visit(imp)
				}
			}
		}
	}
	visit(c.Files[c.PathArg].Path)
	return out
}

// prepareFault arranges the destination. out is the output directory (export/format) or the
// directory holding the single output file (build); target is the expected file the fault aims
// at, relative to out. Returns the -o argument.
func prepareFault(fault, base, out, target string) (string, error) {
	outArg := out
	full := filepath.Join(out, filepath.FromSlash(target))
	parts := strings.Split(target, "/")
	parent := filepath.Join(out, parts[0])
	missing := filepath.Join(base, "no-such-dir", "no-such-file")
	mk := func() error { return os.MkdirAll(filepath.Dir(full), 0o755) }
	switch fault {
	case "none":
		return outArg, os.MkdirAll(out, 0o755)
	case "out-missing":
		return outArg, nil
	case "out-is-file":
		return outArg, os.WriteFile(out, []byte("i am a file"), 0o644)
	case "out-is-dangling-symlink":
		return outArg, os.Symlink(missing, out)
	case "dangling-symlink-at-file":
		if err := mk(); err != nil {
			return "", err
		}
		return outArg, os.Symlink(missing, full)
	case "dir-at-file":
		if err := os.MkdirAll(filepath.Join(full, "occupied"), 0o755); err != nil {
			return "", err
		}
		return outArg, os.WriteFile(filepath.Join(full, "occupied", "x"), []byte("x"), 0o644)
	case "file-at-parent":
		if len(parts) == 1 {
			return prepareFault("dir-at-file", base, out, target)
		}
		if err := os.MkdirAll(out, 0o755); err != nil {
			return "", err
		}
		return outArg, os.WriteFile(parent, []byte("i am a file"), 0o644)
	case "dangling-symlink-at-parent":
		if len(parts) == 1 {
			return prepareFault("dangling-symlink-at-file", base, out, target)
		}
		if err := os.MkdirAll(out, 0o755); err != nil {
			return "", err
		}
		return outArg, os.Symlink(filepath.Join(base, "no-such-dir"), parent)
	case "readonly-parent":
		if err := mk(); err != nil {
			return "", err
		}
		return outArg, os.Chmod(filepath.Dir(full), 0o555)
	case "stale-file-at-dest":
		if err := mk(); err != nil {
			return "", err
		}
		return outArg, os.WriteFile(full, []byte(strings.Repeat("stale content\n", 9000)), 0o644)
	case "symlink-to-existing-file":
		if err := mk(); err != nil {
			return "", err
		}
		real := filepath.Join(base, "elsewhere.proto")
		if err := os.WriteFile(real, []byte("old"), 0o644); err != nil {
			return "", err
		}
		return outArg, os.Symlink(real, full)
	}
	return "", fmt.Errorf("unknown fault %q", fault)
}

func cliEnv(base string) map[string]string {
	return map[string]string{"HOME": base, "BUF_CACHE_DIR": filepath.Join(base, ".cache"), "PATH": os.Getenv("PATH")}
}

// readOutput reads the expected paths below out (following symlinks); missing -> absent.
func missingOrDifferent(out string, expected map[string][]byte) string {
	for _, p := range faultx.SortedKeys(expected) {
		got, err := os.ReadFile(filepath.Join(out, filepath.FromSlash(p)))
		if err != nil {
			return fmt.Sprintf("%q is missing (%v)", p, err)
		}
		if string(got) != string(expected[p]) {
			return fmt.Sprintf("%q has %d bytes that differ from the expected %d bytes (first difference at %d)", p, len(got), len(expected[p]), firstDiff(got, expected[p]))
		}
	}
	return ""
}

type cliResult struct {
	key, msg string
	harness  error
	effect   string // fault-hit | fault-harmless
}

func runCLICase(ctx context.Context, c cliCase) cliResult {
	base, err := os.MkdirTemp("", "c15cli")
	if err != nil {
		return cliResult{harness: err}
	}
	defer func() {
		_ = filepath.Walk(base, func(p string, info os.FileInfo, err error) error {
			if err == nil && info.IsDir() {
				_ = os.Chmod(p, 0o755)
			}
			return nil
		})
		_ = os.RemoveAll(base)
	}()
	ws := filepath.Join(base, "ws")
	all, err := c.writeWorkspace(ws)
	if err != nil {
		return cliResult{harness: err}
	}
	env := cliEnv(base)
	args := func(out string) []string {
		switch c.Cmd {
		case "export":
			a := []string{"export", ws, "-o", out}
			if c.ExcludeImports {
				a = append(a, "--exclude-imports")
			}
			if c.PathArg >= 0 {
				f := c.Files[c.PathArg]
				a = append(a, "--path", filepath.Join(ws, c.Modules[f.Module], filepath.FromSlash(f.Path)))
			}
			return a
		case "build":
			return []string{"build", ws, "-o", filepath.Join(out, "image.binpb")}
		default:
			return []string{"format", ws, "-o", out}
		}
	}
	// clean run into a fresh destination
	cleanOut := filepath.Join(base, "clean-out")
	if err := os.MkdirAll(cleanOut, 0o755); err != nil {
		return cliResult{harness: err}
	}
	code, _, stderr := bufcli.Run(ctx, env, "", args(cleanOut)...)
	if code != 0 {
		return cliResult{harness: fmt.Errorf("clean `buf %s` failed with %d: %s", strings.Join(args(cleanOut), " "), code, stderr)}
	}
	cleanSnap, err := faultx.SnapshotDir(cleanOut)
	if err != nil {
		return cliResult{harness: err}
	}
	expected := cleanSnap
	if c.Cmd == "export" {
		expected = c.expectedExport(all)
		if why := missingOrDifferent(cleanOut, expected); why != "" {
			return cliResult{harness: fmt.Errorf("clean export does not produce the reference files: %s (got %v)", why, faultx.SortedKeys(cleanSnap))}
		}
		if len(cleanSnap) != len(expected) {
			return cliResult{harness: fmt.Errorf("clean export wrote %v, the reference expects %v", faultx.SortedKeys(cleanSnap), faultx.SortedKeys(expected))}
		}
	}
	if len(expected) == 0 {
		return cliResult{harness: fmt.Errorf("clean run wrote nothing")}
	}
	// faulted run
	keys := faultx.SortedKeys(expected)
	target := keys[c.Target%len(keys)]
	fault := c.Fault
	if fault == "readonly-parent" && os.Geteuid() == 0 {
		evid.R().Class("cli-fault-skipped:readonly-parent-as-root")
		fault = "none"
	}
	out := filepath.Join(base, "out")
	outArg, err := prepareFault(fault, base, out, target)
	if err != nil {
		return cliResult{harness: fmt.Errorf("prepare %s: %w", fault, err)}
	}
	a := args(outArg)
	code, _, stderr = bufcli.Run(ctx, env, "", a...)
	why := missingOrDifferent(out, expected)
	res := cliResult{effect: "fault-harmless"}
	if why != "" {
		res.effect = "fault-hit"
	}
	if code == 0 && why != "" {
		res.key = "error-swallowed:buf-" + c.Cmd
		res.msg = fmt.Sprintf("`buf %s` exited 0 with destination fault %s at %q, but %s (stderr: %q)", strings.Join(a[:1], " ")+" <ws> "+strings.Join(a[2:], " "), fault, target, why, firstLineStr(stderr))
	}
	return res
}

func firstLineStr(s string) string {
	if i := strings.IndexByte(s, '\n'); i >= 0 {
		s = s[:i]
	}
	if len(s) > 300 {
		s = s[:300]
	}
	return s
}

func TestCLIWrites(t *testing.T) {
	r := evid.R()
	ctx := context.Background()
	for i, cmd := range []struct {
		name            string
		quick, thorough int
	}{{"export", 120, 3000}, {"build", 24, 500}, {"format", 24, 500}} {
		t.Run(cmd.name, func(t *testing.T) {
			r.Check(t, r.Scale(cmd.quick, cmd.thorough), 40+i, func(t *rapid.T) {
				c := genCLICase(t, cmd.name)
				res := runCLICase(ctx, c)
				if res.harness != nil {
					t.Fatalf("harness: %v (case %s)", res.harness, c.canon())
				}
				r.Eval()
				r.Class("cli:" + c.Cmd)
				r.Class("cli-fault:" + c.Fault + "/" + res.effect)
				if len(c.Vendored) > 0 {
					r.Class("cli:vendored-wkt")
				}
				if c.ExcludeImports {
					r.Class("cli:--exclude-imports")
				}
				if c.PathArg >= 0 {
					r.Class("cli:--path")
				}
				if res.effect == "fault-hit" {
					r.NonTrivial("cli|" + c.canon())
				}
				if res.key != "" {
					r.Fail(t, res.key, res.msg, c)
				}
			})
		})
	}
}

func replayCLI(t *testing.T) {
	var c cliCase
	ok, err := evid.ReplayCase(&c)
	if !ok {
		t.Skip("no VERIF_REPLAY")
	}
	if err != nil {
		t.Fatal(err)
	}
	r := evid.R()
	defer r.Begin(t)()
	res := runCLICase(context.Background(), c)
	if res.harness != nil {
		t.Fatalf("harness: %v", res.harness)
	}
	r.Eval()
	if res.key != "" {
		r.Fail(t, res.key, res.msg, c)
	}
}
