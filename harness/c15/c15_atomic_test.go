// C15 part 2 — atomic puts on disk are all-or-nothing.
//
// A generated case = (old object or none, new content written in chunks, nested path). For the
// case EVERY stage of the atomic put is visited: after the temporary file was created, after each
// Write, a *real* failing write(2) (EFBIG through RLIMIT_FSIZE, at the start and in the middle
// of every chunk), a kill between temp-file close and rename and one right after the rename (the
// storageos verif hook), a failing rename (the final path is a directory), and the same put
// through storage.PutPath / storage.Copy(CopyWithAtomic). At every observation point a reader
// (a fresh storageos bucket on the same directory + storage.ReadPath) must see the old bytes or
// the complete new bytes; after a failed put the old bytes and no ".tmp*" file.
//
// Thorough/quick real-process variant: the test binary re-executes itself (VERIF_CHILD) and
// os.Exit(3)s inside the put at a given stage, or is SIGKILLed at a drawn instant while it
// alternates two contents; the parent then checks old-or-new.
package c15

import (
	"bytes"
	"context"
	"encoding/json"
	"errors"
	"fmt"
	"os"
	"os/exec"
	"path/filepath"
	"strings"
	"sync"
	"sync/atomic"
	"syscall"
	"testing"
	"time"

	"github.com/bufbuild/buf/private/pkg/storage"
	"github.com/bufbuild/buf/private/pkg/storage/storageos"
	"github.com/bufbuild/buf/private/pkg/thread"
	"github.com/bufbuild/bufverif/internal/evid"
	"github.com/bufbuild/bufverif/internal/faultx"
	"pgregory.net/rapid"
)

type atomCase struct {
	Path    string `json:"path"`
	HasOld  bool   `json:"has_old"`
	OldSize int    `json:"old_size"`
	OldSeed uint32 `json:"old_seed"`
	NewSize int    `json:"new_size"`
	NewSeed uint32 `json:"new_seed"`
	Chunks  []int  `json:"chunks"` // sizes, sum == NewSize, each >= 1 (empty for NewSize 0)
	// Others are further objects copied together with Path in the storage.Copy stage.
	Others []faultx.FileSpec `json:"others,omitempty"`
	// Via is the write-side wrapper the put goes through: direct | map | maprw | nopcloser |
	// limit | map+limit | limit+map (limits are never reached here). Depth is the number of
	// path components of the mapped prefix (1-2).
	Via   string `json:"via"`
	Depth int    `json:"depth"`
	// set on failure / for replay
	Stage string `json:"stage,omitempty"`
}

func (c atomCase) canon() string { c.Stage = ""; b, _ := json.Marshal(c); return string(b) }
func (c atomCase) oldData() []byte {
	if !c.HasOld {
		return nil
	}
	return faultx.Content(c.OldSeed, c.OldSize)
}
func (c atomCase) newData() []byte { return faultx.Content(c.NewSeed+1, c.NewSize) }

// prefix is the mapped prefix of the wrapper ("" if the wrapper does not map).
func (c atomCase) prefix() string {
	if !strings.Contains(c.Via, "map") {
		return ""
	}
	if c.Depth >= 2 {
		return "cache/v3"
	}
	return "cache"
}

// disk is the path, relative to the directory of the disk bucket, where path p of the
// (wrapped) bucket lives.
func (c atomCase) disk(p string) string {
	if pre := c.prefix(); pre != "" {
		return pre + "/" + p
	}
	return p
}

// key names the wrapper in the root-cause key.
func (c atomCase) key(base string) string {
	if c.Via == "" || c.Via == "direct" {
		return base
	}
	return base + ":via-" + c.Via
}

func (c atomCase) viaMsg(msg string) string {
	if c.Via == "" || c.Via == "direct" {
		return msg
	}
	return fmt.Sprintf("put through the %s wrapper (prefix %q) over the disk bucket: %s", c.Via, c.prefix(), msg)
}

const neverReached = 1 << 30

// wrapVia puts the case's write-side wrapper around the disk bucket.
func wrapVia(b storage.ReadWriteBucket, c atomCase) (storage.WriteBucket, error) {
	m := storage.MapOnPrefix(c.prefix())
	switch c.Via {
	case "", "direct":
		return b, nil
	case "map":
		return storage.MapWriteBucket(b, m), nil
	case "maprw":
		return storage.MapReadWriteBucket(b, m), nil
	case "nopcloser":
		return storage.NopReadWriteBucketCloser(b), nil
	case "limit":
		return storage.LimitWriteBucket(b, neverReached), nil
	case "map+limit":
		return storage.MapWriteBucket(storage.LimitWriteBucket(b, neverReached), m), nil
	case "limit+map":
		return storage.LimitWriteBucket(storage.MapWriteBucket(b, m), neverReached), nil
	}
	return nil, fmt.Errorf("unknown wrapper %q", c.Via)
}

var vias = []string{"direct", "direct", "map", "map", "map", "maprw", "maprw", "nopcloser", "limit", "map+limit", "limit+map"}

func genAtomCase(t *rapid.T) atomCase {
	c := atomCase{
		Path:    rapid.SampledFrom([]string{"f.txt", "d/f.proto", "d/e/buf.lock", "a/b/c/module.yaml"}).Draw(t, "path"),
		HasOld:  rapid.IntRange(0, 3).Draw(t, "hasold") != 0,
		OldSize: faultx.GenSize(t, "oldsize"),
		OldSeed: uint32(rapid.IntRange(0, 1<<20).Draw(t, "oldseed")),
		NewSize: faultx.GenSize(t, "newsize"),
		NewSeed: uint32(rapid.IntRange(0, 1<<20).Draw(t, "newseed")),
	}
	c.Via = rapid.SampledFrom(vias).Draw(t, "via")
	c.Depth = rapid.IntRange(1, 2).Draw(t, "depth")
	rest := c.NewSize
	for rest > 0 {
		n := rest
		if len(c.Chunks) < 4 && rapid.IntRange(0, 2).Draw(t, "split") != 0 {
			n = rapid.IntRange(1, rest).Draw(t, "chunk")
		}
		c.Chunks = append(c.Chunks, n)
		rest -= n
	}
	for i := 0; i < rapid.IntRange(0, 3).Draw(t, "others"); i++ {
		c.Others = append(c.Others, faultx.FileSpec{
			Path: fmt.Sprintf("other/o%d.proto", i),
			Size: faultx.GenSize(t, "osize"),
			Seed: uint32(rapid.IntRange(0, 1<<20).Draw(t, "oseed")),
		})
	}
	return c
}

type atomEnv struct {
	c        atomCase
	dir      string
	old, new []byte
}

func newAtomEnv(c atomCase) (*atomEnv, error) {
	dir, err := os.MkdirTemp("", "c15atom")
	if err != nil {
		return nil, err
	}
	e := &atomEnv{c: c, dir: dir, old: c.oldData(), new: c.newData()}
	if c.HasOld {
		full := filepath.Join(dir, filepath.FromSlash(c.disk(c.Path)))
		if err := os.MkdirAll(filepath.Dir(full), 0o755); err != nil {
			return nil, err
		}
		if err := os.WriteFile(full, e.old, 0o644); err != nil {
			return nil, err
		}
	}
	return e, nil
}

func (e *atomEnv) close() { _ = os.RemoveAll(e.dir) }

// bucket is the bucket the writer uses: the disk bucket behind the case's wrapper.
func (e *atomEnv) bucket() (storage.WriteBucket, error) {
	b, err := storageos.NewProvider().NewReadWriteBucket(e.dir)
	if err != nil {
		return nil, err
	}
	return wrapVia(b, e.c)
}

// read is the reader: a fresh bucket over the same directory.
func readObject(dir, path string) (data []byte, exists bool, err error) {
	b, err := storageos.NewProvider().NewReadWriteBucket(dir)
	if err != nil {
		return nil, false, err
	}
	data, err = storage.ReadPath(context.Background(), b, path)
	if err != nil {
		if errors.Is(err, os.ErrNotExist) {
			return nil, false, nil
		}
		return nil, false, err
	}
	return data, true, nil
}

const (
	wantOld      = 1
	wantNew      = 2
	wantOldOrNew = 3
)

func describeBytes(b []byte, exists bool) string {
	if !exists {
		return "absent"
	}
	return fmt.Sprintf("%d bytes", len(b))
}

// observe checks what a reader sees. Returns a violation message or "".
func (e *atomEnv) observe(want int) (string, error) {
	got, exists, err := readObject(e.dir, e.c.disk(e.c.Path))
	if err != nil {
		return "", err
	}
	isOld := exists == e.c.HasOld && (!exists || bytes.Equal(got, e.old))
	isNew := exists && bytes.Equal(got, e.new)
	ok := (want&wantOld != 0 && isOld) || (want&wantNew != 0 && isNew)
	if ok {
		return "", nil
	}
	wantS := map[int]string{wantOld: "the old content", wantNew: "the complete new content", wantOldOrNew: "the old or the complete new content"}[want]
	oldS := "absent"
	if e.c.HasOld {
		oldS = fmt.Sprintf("%d bytes", len(e.old))
	}
	return fmt.Sprintf("reader sees %s at %q, want %s (old: %s, new: %d bytes; first difference from new at %d)",
		describeBytes(got, exists), e.c.Path, wantS, oldS, len(e.new), firstDiff(got, e.new)), nil
}

// tempFiles lists files whose name starts with ".tmp" anywhere below dir.
func tempFiles(dir string) ([]string, error) {
	snap, err := faultx.SnapshotDir(dir)
	if err != nil {
		return nil, err
	}
	var out []string
	for _, p := range faultx.SortedKeys(snap) {
		if strings.HasPrefix(filepath.Base(p), ".tmp") {
			out = append(out, p)
		}
	}
	return out, nil
}

type atomViolation struct{ key, msg, stage string }

var errKill = errors.New("c15: simulated kill inside the atomic close")

// stages enumerates every stage name for the case.
func (c atomCase) stages() []string {
	st := []string{"clean", "temp-created", "closed-temp", "renamed", "rename-fails", "putpath-efbig", "copy-efbig", "concurrent-reader"}
	for i := range c.Chunks {
		st = append(st, fmt.Sprintf("crash-after-write:%d", i))
		st = append(st, fmt.Sprintf("efbig:%d:0", i))
		if c.Chunks[i] > 1 {
			st = append(st, fmt.Sprintf("efbig:%d:%d", i, c.Chunks[i]/2))
			st = append(st, fmt.Sprintf("efbig:%d:%d", i, c.Chunks[i]-1))
		}
	}
	return st
}

// runStage performs the put up to / with the stage's failure and checks every observation point.
func runStage(c atomCase, stage string) (*atomViolation, error) {
	e, err := newAtomEnv(c)
	if err != nil {
		return nil, err
	}
	defer e.close()
	defer storageos.SetVerifAtomicCloseHook(nil)
	ctx := context.Background()
	b, err := e.bucket()
	if err != nil {
		return nil, err
	}
	viol := func(key, msg string) (*atomViolation, error) {
		return &atomViolation{key: key, msg: fmt.Sprintf("stage %s: %s", stage, msg), stage: stage}, nil
	}
	obs := func(want int, when string) (*atomViolation, error) {
		msg, err := e.observe(want)
		if err != nil {
			return nil, err
		}
		if msg != "" {
			return &atomViolation{key: "atomic-put-partial-visible", msg: fmt.Sprintf("stage %s, %s: %s", stage, when, msg), stage: stage}, nil
		}
		return nil, nil
	}
	noTemp := func(when string) (*atomViolation, error) {
		tmps, err := tempFiles(e.dir)
		if err != nil {
			return nil, err
		}
		if len(tmps) > 0 {
			return &atomViolation{key: "temp-file-left", msg: fmt.Sprintf("stage %s, %s: temporary files remain: %v", stage, when, tmps), stage: stage}, nil
		}
		return nil, nil
	}
	var kind string
	var a1, a2 int
	switch {
	case strings.HasPrefix(stage, "crash-after-write:"):
		kind = "crash-after-write"
		fmt.Sscanf(stage, "crash-after-write:%d", &a1)
	case strings.HasPrefix(stage, "efbig:"):
		kind = "efbig"
		fmt.Sscanf(stage, "efbig:%d:%d", &a1, &a2)
	default:
		kind = stage
	}

	switch kind {
	case "rename-fails":
		// the final path is a directory that holds an object: the rename must fail
		if c.HasOld {
			if err := os.Remove(filepath.Join(e.dir, filepath.FromSlash(c.disk(c.Path)))); err != nil {
				return nil, err
			}
		}
		inner := filepath.Join(e.dir, filepath.FromSlash(c.disk(c.Path)), "inner.txt")
		if err := os.MkdirAll(filepath.Dir(inner), 0o755); err != nil {
			return nil, err
		}
		if err := os.WriteFile(inner, []byte("inner"), 0o644); err != nil {
			return nil, err
		}
		perr := storage.PutPath(ctx, b, c.Path, e.new, storage.PutWithAtomic())
		if perr == nil {
			return viol("error-swallowed:AtomicRename", "atomic PutPath onto a path that is a non-empty directory returned nil")
		}
		if v, err := noTemp("after the failed put"); v != nil || err != nil {
			return v, err
		}
		got, rerr := os.ReadFile(inner)
		if rerr != nil || string(got) != "inner" {
			return viol("atomic-put-partial-visible", fmt.Sprintf("the failed put damaged the existing directory at the final path: %v %q", rerr, got))
		}
		return nil, nil
	case "putpath-efbig":
		if c.NewSize == 0 {
			return nil, nil
		}
		var perr error
		if err := faultx.WithFileSizeLimit(uint64(c.NewSize/2), func() {
			perr = storage.PutPath(ctx, b, c.Path, e.new, storage.PutWithAtomic())
		}); err != nil {
			return nil, err
		}
		if perr == nil {
			return viol("error-swallowed:PutPath", fmt.Sprintf("atomic PutPath of %d bytes returned nil although write(2) failed with EFBIG after %d bytes", c.NewSize, c.NewSize/2))
		}
		if v, err := obs(wantOld, "after the failed PutPath"); v != nil || err != nil {
			return v, err
		}
		return noTemp("after the failed PutPath")
	case "copy-efbig":
		// storage.Copy(CopyWithAtomic) of several objects with a file size limit: objects larger
		// than the limit fail, the others succeed; each is old/absent or complete.
		src := map[string][]byte{c.Path: e.new}
		for _, o := range c.Others {
			src[o.Path] = o.Data()
		}
		limit := c.NewSize / 2
		mem, err := faultx.MemBucket(ctx, src)
		if err != nil {
			return nil, err
		}
		var n int
		var cerr error
		thread.SetParallelism(2)
		defer thread.SetParallelism(1)
		if err := faultx.WithFileSizeLimit(uint64(limit), func() {
			n, cerr = storage.Copy(ctx, mem, b, storage.CopyWithAtomic())
		}); err != nil {
			return nil, err
		}
		fits := 0
		for _, p := range faultx.SortedKeys(src) {
			got, exists, err := readObject(e.dir, c.disk(p))
			if err != nil {
				return nil, err
			}
			if len(src[p]) <= limit {
				fits++
				if cerr == nil && (!exists || !bytes.Equal(got, src[p])) {
					return viol("error-swallowed:Copy", fmt.Sprintf("atomic Copy returned nil but %q is %s", p, describeBytes(got, exists)))
				}
				continue
			}
			// must have failed: old (for Path) or absent
			if p == c.Path {
				if v, err := obs(wantOld, "after the failed atomic Copy"); v != nil || err != nil {
					return v, err
				}
			} else if exists {
				return viol("atomic-put-partial-visible", fmt.Sprintf("atomic Copy under a %d byte file size limit left %q with %d of %d bytes", limit, p, len(got), len(src[p])))
			}
		}
		if fits < len(src) && cerr == nil {
			return viol("error-swallowed:Copy", fmt.Sprintf("atomic Copy returned (%d, nil) although %d of %d objects hit EFBIG", n, len(src)-fits, len(src)))
		}
		if cerr == nil && n != len(src) {
			return viol("copy-count-wrong", fmt.Sprintf("atomic Copy returned (%d, nil) for %d objects", n, len(src)))
		}
		return noTemp("after the atomic Copy")
	case "concurrent-reader":
		// exploration: a reader goroutine polls while the put runs
		var stop atomic.Bool
		var wg sync.WaitGroup
		var bad atomic.Pointer[string]
		wg.Add(1)
		go func() {
			defer wg.Done()
			for !stop.Load() {
				if msg, err := e.observe(wantOldOrNew); err == nil && msg != "" {
					bad.CompareAndSwap(nil, &msg)
					return
				}
			}
		}()
		w, err := b.Put(ctx, c.Path, storage.PutWithAtomic())
		if err == nil {
			off := 0
			for _, n := range c.Chunks {
				if _, err = w.Write(e.new[off : off+n]); err != nil {
					break
				}
				off += n
			}
			err = errors.Join(err, w.Close())
		}
		stop.Store(true)
		wg.Wait()
		if err != nil {
			return nil, fmt.Errorf("clean concurrent put failed: %w", err)
		}
		if m := bad.Load(); m != nil {
			return viol("atomic-put-partial-visible", "concurrent reader: "+*m)
		}
		return obs(wantNew, "after the put")
	}

	// staged manual put
	hookSeen := map[string]int{}
	storageos.SetVerifAtomicCloseHook(func(st, tmp, final string) error {
		hookSeen[st]++
		switch st {
		case "closed-temp":
			if msg, err := e.observe(wantOldOrNew); err == nil && msg != "" {
				hookSeen["bad:"+msg]++
			}
			if kind == "closed-temp" {
				return errKill
			}
		case "renamed":
			if msg, err := e.observe(wantNew); err == nil && msg != "" {
				hookSeen["bad:"+msg]++
			}
			if kind == "renamed" {
				return errKill
			}
		}
		return nil
	})
	hookBad := func() (*atomViolation, error) {
		for k := range hookSeen {
			if strings.HasPrefix(k, "bad:") {
				return viol("atomic-put-partial-visible", "inside Close: "+strings.TrimPrefix(k, "bad:"))
			}
		}
		return nil, nil
	}
	w, err := b.Put(ctx, c.Path, storage.PutWithAtomic())
	if err != nil {
		return nil, fmt.Errorf("atomic Put failed: %w", err)
	}
	// the abandoned writer is closed only after all observations (the directory is discarded)
	closed := false
	defer func() {
		if !closed {
			storageos.SetVerifAtomicCloseHook(nil)
			_ = w.Close()
		}
	}()
	// before Close returns the statement allows the old or the complete new content (an empty new
	// object is complete as soon as it exists)
	if v, err := obs(wantOldOrNew, "after Put (temporary file created)"); v != nil || err != nil {
		return v, err
	}
	if kind == "temp-created" {
		return nil, nil // killed here: the old content is all a reader may see (checked above)
	}
	off := 0
	for i, n := range c.Chunks {
		if kind == "efbig" && i == a1 {
			var wn int
			var werr error
			if err := faultx.WithFileSizeLimit(uint64(off+a2), func() {
				wn, werr = w.Write(e.new[off : off+n])
			}); err != nil {
				return nil, err
			}
			if werr == nil {
				return nil, fmt.Errorf("write of %d bytes at offset %d under RLIMIT_FSIZE=%d did not fail (n=%d)", n, off, off+a2, wn)
			}
			if v, err := obs(wantOld, "after the failed write"); v != nil || err != nil {
				return v, err
			}
			closed = true
			cerr := w.Close()
			if v, err := hookBad(); v != nil || err != nil {
				return v, err
			}
			if v, err := obs(wantOld, "after Close following a failed write"); v != nil || err != nil {
				return v, err
			}
			if cerr == nil {
				return viol("error-swallowed:AtomicClose", fmt.Sprintf("Close returned nil after write(2) failed with %v at chunk %d", werr, i))
			}
			return noTemp("after Close following a failed write")
		}
		if _, err := w.Write(e.new[off : off+n]); err != nil {
			return nil, fmt.Errorf("write failed: %w", err)
		}
		off += n
		if v, err := obs(wantOldOrNew, fmt.Sprintf("after write %d", i)); v != nil || err != nil {
			return v, err
		}
		if kind == "crash-after-write" && i == a1 {
			return nil, nil
		}
	}
	closed = true
	cerr := w.Close()
	if v, err := hookBad(); v != nil || err != nil {
		return v, err
	}
	// Whether Close goes through the temp-file + rename stages is a mechanism: if a hook stage is
	// not reached the run is simply a put that completed, and only the outcome is judged.
	if hookSeen["closed-temp"] == 0 || hookSeen["renamed"] == 0 {
		evid.R().Class("atomic-hook-stage-not-reached")
	}
	switch {
	case kind == "closed-temp" && errors.Is(cerr, errKill):
		return obs(wantOld, "after a kill between temp-file close and rename")
	case kind == "renamed" && errors.Is(cerr, errKill):
		return obs(wantNew, "after a kill right after the rename")
	default: // clean, or the kill stage was never reached
		if cerr != nil {
			return nil, fmt.Errorf("atomic put without an injected failure failed: %w", cerr)
		}
		return obs(wantNew, "after the successful put")
	}
}

var atomStages int

func TestAtomicPut(t *testing.T) {
	r := evid.R()
	r.Check(t, r.Scale(120, 2800), 2, func(t *rapid.T) {
		c := genAtomCase(t)
		for _, stage := range c.stages() {
			v, err := runStage(c, stage)
			if err != nil {
				t.Fatalf("harness: stage %s: %v (case %s)", stage, err, c.canon())
			}
			r.Eval()
			atomStages++
			cls := "atomic:" + strings.SplitN(stage, ":", 2)[0]
			if stage == "concurrent-reader" {
				cls += " (exploration)"
			}
			r.Class(cls)
			if v != nil {
				cc := c
				cc.Stage = stage
				if !r.Fail(t, cc.key(v.key), cc.viaMsg(v.msg), cc) {
					return
				}
			}
		}
		r.Class("atomic-via:" + c.Via)
		if c.HasOld {
			r.Class("atomic-case:overwrite")
		} else {
			r.Class("atomic-case:new-object")
		}
		r.NonTrivial(c.canon())
		if len(c.Chunks) > 1 {
			r.Sample(map[string]any{"path": c.Path, "old": c.HasOld, "new_size": c.NewSize, "chunks": c.Chunks, "stages": len(c.stages())})
		}
	})
	r.Extra("atomic_stages_enumerated", atomStages)
}

func replayAtomic(t *testing.T) {
	var c atomCase
	ok, err := evid.ReplayCase(&c)
	if !ok {
		t.Skip("no VERIF_REPLAY")
	}
	if err != nil {
		t.Fatal(err)
	}
	r := evid.R()
	defer r.Begin(t)()
	stages := c.stages()
	if c.Stage != "" {
		stages = []string{c.Stage}
	}
	for _, stage := range stages {
		if stage == "child:loop" {
			t.Skip("SIGKILL exploration cases depend on the kill instant and cannot be replayed deterministically")
		}
		if strings.HasPrefix(stage, "limit-bucket:") {
			limit := 0
			fmt.Sscanf(stage, "limit-bucket:%d", &limit)
			v, err := limitBucketScenario(c, limit)
			if err != nil {
				t.Fatalf("harness: %v", err)
			}
			r.Eval()
			if v != nil {
				r.Fail(t, c.key(v.key), c.viaMsg(v.msg), c)
			}
			continue
		}
		if strings.HasPrefix(stage, "child:") {
			v, err := runChildStage(c, strings.TrimPrefix(stage, "child:"))
			if err != nil {
				t.Fatalf("harness: %v", err)
			}
			r.Eval()
			if v != nil {
				r.Fail(t, c.key(v.key), c.viaMsg(v.msg), c)
			}
			continue
		}
		v, err := runStage(c, stage)
		if err != nil {
			t.Fatalf("harness: %v", err)
		}
		r.Eval()
		if v != nil {
			r.Fail(t, c.key(v.key), c.viaMsg(v.msg), c)
		}
	}
}

// ---------------------------------------------------------------------------------------------
// LimitWriteBucket over an atomic put (open known finding
// "limit-bucket-publishes-partial-atomic-put"): the limit wrapper rejects a Write without the
// wrapped atomic writer ever seeing an error, so the wrapped Close renames a truncated temp file.

const keyLimitBucket = "limit-bucket-publishes-partial-atomic-put"

// limitBucketScenario: atomic put of the case's new content in its chunks through
// storage.LimitWriteBucket(diskBucket, limit). If a write was rejected by the limit, the put
// failed: a reader must still see the old content and no temp file may remain.
func limitBucketScenario(c atomCase, limit int) (*atomViolation, error) {
	stage := fmt.Sprintf("limit-bucket:%d", limit)
	e, err := newAtomEnv(c)
	if err != nil {
		return nil, err
	}
	defer e.close()
	ctx := context.Background()
	b, err := e.bucket()
	if err != nil {
		return nil, err
	}
	w, err := storage.LimitWriteBucket(b, limit).Put(ctx, c.Path, storage.PutWithAtomic())
	if err != nil {
		return nil, fmt.Errorf("atomic Put through LimitWriteBucket failed: %w", err)
	}
	var werr error
	off := 0
	for _, n := range c.Chunks {
		if _, werr = w.Write(e.new[off : off+n]); werr != nil {
			break
		}
		off += n
	}
	cerr := w.Close()
	got, exists, err := readObject(e.dir, c.disk(c.Path))
	if err != nil {
		return nil, err
	}
	if werr == nil {
		// the limit was not reached: an ordinary successful put
		if cerr != nil {
			return nil, fmt.Errorf("put within the limit failed: %w", cerr)
		}
		if !exists || !bytes.Equal(got, e.new) {
			return &atomViolation{key: "atomic-put-partial-visible", msg: fmt.Sprintf("stage %s: successful put within the limit left %s", stage, describeBytes(got, exists)), stage: stage}, nil
		}
		return nil, nil
	}
	isOld := exists == c.HasOld && (!exists || bytes.Equal(got, e.old))
	if !isOld {
		truncatedPrefix := exists && len(got) < len(e.new) && bytes.HasPrefix(e.new, got)
		key := "atomic-put-partial-visible"
		if truncatedPrefix && cerr == nil {
			key = keyLimitBucket
		}
		oldS := "absent"
		if c.HasOld {
			oldS = fmt.Sprintf("%d bytes", len(e.old))
		}
		return &atomViolation{key: key, stage: stage, msg: fmt.Sprintf(
			"stage %s: atomic put of %d bytes at %q through storage.LimitWriteBucket(limit=%d): Write failed with %q after %d accepted bytes, Close returned %v, and a reader now sees %s (the first %d bytes of the new content) instead of the old content (%s)",
			stage, len(e.new), c.Path, limit, firstLineOf(werr), off, cerr, describeBytes(got, exists), len(got), oldS)}, nil
	}
	tmps, err := tempFiles(e.dir)
	if err != nil {
		return nil, err
	}
	if len(tmps) > 0 {
		return &atomViolation{key: "temp-file-left", msg: fmt.Sprintf("stage %s: temporary files remain after the limit-rejected put: %v", stage, tmps), stage: stage}, nil
	}
	return nil, nil
}

func firstLineOf(err error) string {
	s := err.Error()
	if i := strings.IndexByte(s, '\n'); i >= 0 {
		s = s[:i]
	}
	return s
}

// TestLimitBucketAtomicPut: one fixed scenario every run (directed regression for the known
// finding) plus a few generated sizes/limits.
func TestLimitBucketAtomicPut(t *testing.T) {
	r := evid.R()
	func() {
		defer r.Begin(t)()
		// "OLD-CONTENT" replaced by "NEW"+"-COMPLETE-CONTENT" with a 5 byte limit
		c := atomCase{Path: "f.txt", HasOld: true, OldSize: 11, OldSeed: 1, NewSize: 20, NewSeed: 2, Chunks: []int{3, 17}, Via: "direct"}
		v, err := limitBucketScenario(c, 5)
		if err != nil {
			t.Fatalf("harness: %v", err)
		}
		r.Eval()
		r.Class("atomic:limit-bucket (directed)")
		if v != nil {
			c.Stage = v.stage
			r.Fail(t, c.key(v.key), c.viaMsg(v.msg), c)
		}
	}()
	r.Check(t, r.Scale(40, 600), 5, func(t *rapid.T) {
		c := genAtomCase(t)
		c.Others = nil
		c.Via = "direct" // the known finding is exactly LimitWriteBucket directly over the disk bucket
		if c.NewSize == 0 {
			c.NewSize, c.Chunks = 1, []int{1}
		}
		limit := rapid.IntRange(0, c.NewSize-1).Draw(t, "limit")
		v, err := limitBucketScenario(c, limit)
		if err != nil {
			t.Fatalf("harness: %v (case %s)", err, c.canon())
		}
		r.Eval()
		r.Class("atomic:limit-bucket (generated)")
		if v != nil {
			c.Stage = v.stage
			if r.Fail(t, c.key(v.key), c.viaMsg(v.msg), c) {
				return
			}
		}
	})
}

// ---------------------------------------------------------------------------------------------
// real processes

type childSpec struct {
	Dir   string   `json:"dir"`
	Case  atomCase `json:"case"`
	Stage string   `json:"stage"` // none | temp-created | after-write:i | closed-temp | renamed | efbig:i:j | loop
}

// childMain runs in the re-executed test binary.
func childMain() int {
	var spec childSpec
	if err := json.Unmarshal([]byte(os.Getenv("VERIF_CHILD_SPEC")), &spec); err != nil {
		fmt.Println("child: bad spec:", err)
		return 9
	}
	ctx := context.Background()
	osb, err := storageos.NewProvider().NewReadWriteBucket(spec.Dir)
	if err != nil {
		fmt.Println("child:", err)
		return 9
	}
	c := spec.Case
	b, err := wrapVia(osb, c)
	if err != nil {
		fmt.Println("child:", err)
		return 9
	}
	newData := c.newData()
	if spec.Stage == "loop" {
		// alternate two complete contents until killed
		alt := faultx.Content(c.NewSeed+2, c.NewSize+3)
		fmt.Println("ready")
		for i := 0; ; i++ {
			d := newData
			if i%2 == 1 {
				d = alt
			}
			if err := storage.PutPath(ctx, b, c.Path, d, storage.PutWithAtomic()); err != nil {
				fmt.Println("child: put:", err)
				return 9
			}
		}
	}
	storageos.SetVerifAtomicCloseHook(func(st, tmp, final string) error {
		if st == spec.Stage {
			os.Exit(3)
		}
		return nil
	})
	w, err := b.Put(ctx, c.Path, storage.PutWithAtomic())
	if err != nil {
		fmt.Println("child: put:", err)
		return 9
	}
	if spec.Stage == "temp-created" {
		os.Exit(3)
	}
	var ai, aj int
	efbig := false
	if n, _ := fmt.Sscanf(spec.Stage, "efbig:%d:%d", &ai, &aj); n == 2 {
		efbig = true
	}
	exitAfter := -1
	fmt.Sscanf(spec.Stage, "after-write:%d", &exitAfter)
	off := 0
	for i, n := range c.Chunks {
		if efbig && i == ai {
			var werr error
			if err := faultx.WithFileSizeLimit(uint64(off+aj), func() { _, werr = w.Write(newData[off : off+n]) }); err != nil {
				fmt.Println("child: rlimit:", err)
				return 9
			}
			if werr == nil {
				fmt.Println("child: write did not fail")
				return 9
			}
			if cerr := w.Close(); cerr == nil {
				return 5 // Close swallowed the write error
			}
			return 4 // failed as it should
		}
		if _, err := w.Write(newData[off : off+n]); err != nil {
			fmt.Println("child: write:", err)
			return 9
		}
		off += n
		if i == exitAfter {
			os.Exit(3)
		}
	}
	if err := w.Close(); err != nil {
		fmt.Println("child: close:", err)
		return 9
	}
	return 0
}

func startChild(spec childSpec) (*exec.Cmd, *bytes.Buffer, error) {
	data, err := json.Marshal(spec)
	if err != nil {
		return nil, nil, err
	}
	cmd := exec.Command(os.Args[0])
	cmd.Env = append(os.Environ(), "VERIF_CHILD=c15", "VERIF_CHILD_SPEC="+string(data), "VERIF_OUT=")
	var out bytes.Buffer
	cmd.Stdout = &out
	cmd.Stderr = &out
	if err := cmd.Start(); err != nil {
		return nil, nil, err
	}
	return cmd, &out, nil
}

func exitCode(err error) int {
	if err == nil {
		return 0
	}
	var ee *exec.ExitError
	if errors.As(err, &ee) {
		return ee.ExitCode()
	}
	return -2
}

// runChildStage performs one real-process run and checks the directory afterwards.
func runChildStage(c atomCase, stage string) (*atomViolation, error) {
	e, err := newAtomEnv(c)
	if err != nil {
		return nil, err
	}
	defer e.close()
	full := "child:" + stage
	cmd, out, err := startChild(childSpec{Dir: e.dir, Case: c, Stage: stage})
	if err != nil {
		return nil, err
	}
	code := exitCode(cmd.Wait())
	want, wantCode := wantOld, 3
	switch {
	case stage == "none":
		want, wantCode = wantNew, 0
	case stage == "renamed":
		want = wantNew
	case strings.HasPrefix(stage, "efbig:"):
		wantCode = 4
	case stage == "temp-created" || strings.HasPrefix(stage, "after-write:"):
		// killed before Close: the statement allows the old or the complete new content
		want = wantOldOrNew
	}
	if (stage == "closed-temp" || stage == "renamed") && code == 0 {
		// the put never went through that stage of the temp-file + rename mechanism and
		// completed: judge the outcome only
		evid.R().Class("atomic-hook-stage-not-reached")
		want, wantCode = wantNew, 0
	}
	if code == 5 {
		return &atomViolation{key: "error-swallowed:AtomicClose", msg: fmt.Sprintf("stage %s: child: Close returned nil after write(2) failed with EFBIG", full), stage: full}, nil
	}
	if code != wantCode {
		return nil, fmt.Errorf("child for stage %s exited with %d, want %d; output: %s", stage, code, wantCode, out.String())
	}
	msg, err := e.observe(want)
	if err != nil {
		return nil, err
	}
	if msg != "" {
		return &atomViolation{key: "atomic-put-partial-visible", msg: fmt.Sprintf("stage %s: after the child exited with %d: %s", full, code, msg), stage: full}, nil
	}
	if strings.HasPrefix(stage, "efbig:") {
		tmps, err := tempFiles(e.dir)
		if err != nil {
			return nil, err
		}
		if len(tmps) > 0 {
			return &atomViolation{key: "temp-file-left", msg: fmt.Sprintf("stage %s: temporary files remain after the failed put: %v", full, tmps), stage: full}, nil
		}
	}
	return nil, nil
}

var childRuns int

// TestAtomicPutRealProcess: os.Exit inside the put at each stage in a re-executed child.
func TestAtomicPutRealProcess(t *testing.T) {
	r := evid.R()
	r.Check(t, r.Scale(12, 300), 3, func(t *rapid.T) {
		c := genAtomCase(t)
		stages := []string{"none", "temp-created", "closed-temp", "renamed"}
		for i := range c.Chunks {
			stages = append(stages, fmt.Sprintf("after-write:%d", i), fmt.Sprintf("efbig:%d:%d", i, c.Chunks[i]/2))
		}
		for _, stage := range stages {
			v, err := runChildStage(c, stage)
			if err != nil {
				t.Fatalf("harness: %v (case %s)", err, c.canon())
			}
			r.Eval()
			childRuns++
			r.Class("child:" + strings.SplitN(stage, ":", 2)[0])
			if v != nil {
				cc := c
				cc.Stage = v.stage
				if !r.Fail(t, cc.key(v.key), cc.viaMsg(v.msg), cc) {
					return
				}
			}
		}
		r.NonTrivial("child|" + c.canon())
	})
	r.Extra("real_process_exits", childRuns)
}

// TestAtomicPutSigkill (thorough, exploration): a child alternates two complete contents with
// atomic puts and is SIGKILLed after a drawn delay; the survivor must be old or one of the two.
func TestAtomicPutSigkill(t *testing.T) {
	r := evid.R()
	if !r.Thorough() {
		t.Skip("thorough only")
	}
	r.Check(t, r.Scale(0, 300), 4, func(t *rapid.T) {
		c := genAtomCase(t)
		c.Others = nil
		delayUS := rapid.IntRange(0, 3000).Draw(t, "delay_us")
		e, err := newAtomEnv(c)
		if err != nil {
			t.Fatalf("harness: %v", err)
		}
		defer e.close()
		data, _ := json.Marshal(childSpec{Dir: e.dir, Case: c, Stage: "loop"})
		cmd := exec.Command(os.Args[0])
		cmd.Env = append(os.Environ(), "VERIF_CHILD=c15", "VERIF_CHILD_SPEC="+string(data), "VERIF_OUT=")
		stdout, err := cmd.StdoutPipe()
		if err != nil {
			t.Fatalf("harness: %v", err)
		}
		if err := cmd.Start(); err != nil {
			t.Fatalf("harness: %v", err)
		}
		buf := make([]byte, 16)
		n, _ := stdout.Read(buf) // "ready"
		if !strings.HasPrefix(string(buf[:n]), "ready") {
			_ = cmd.Process.Kill()
			_ = cmd.Wait()
			t.Fatalf("harness: child did not start: %q", buf[:n])
		}
		time.Sleep(time.Duration(delayUS) * time.Microsecond)
		_ = cmd.Process.Signal(syscall.SIGKILL)
		_ = cmd.Wait()
		r.Eval()
		r.Class("child:sigkill (exploration)")
		got, exists, err := readObject(e.dir, c.disk(c.Path))
		if err != nil {
			t.Fatalf("harness: %v", err)
		}
		alt := faultx.Content(c.NewSeed+2, c.NewSize+3)
		ok := (exists == c.HasOld && (!exists || bytes.Equal(got, e.old))) || (exists && (bytes.Equal(got, e.new) || bytes.Equal(got, alt)))
		if !ok {
			cc := c
			cc.Stage = "child:loop"
			r.Fail(t, cc.key("atomic-put-partial-visible"), fmt.Sprintf("after SIGKILL of a process alternating two atomic puts the reader sees %s at %q, which is neither the old content nor one of the two complete contents (%d / %d bytes)", describeBytes(got, exists), c.Path, len(e.new), len(alt)), cc)
		}
	})
}
