// C15 — write failures are always reported and atomic puts are all-or-nothing.
//
// Part 1 (this file): error transparency. For a generated source bucket and each write path of
// buf (storage.Copy/CopyPath/CopyReadObject/CopyReader/PutPath/ForWriteObject, storagearchive
// Tar/Untar/Zip/Unzip, bufcas.PutFileSetToBucket, ModuleDataStore.PutModuleDatas,
// bufconfig.PutBuf{YAML,Lock}FileForPrefix, LimitWriteBucket, the plugin response-writer flush)
// the operation is first run on a counting fault bucket / writer to learn its event count E,
// then re-run from scratch with a failure injected at EVERY event k in [0,E), once per failure
// variant that applies to that event, and once with a crash at k.
//
// Oracle: the destination is compared with the complete expected content, which comes from the
// generated source (a map in the harness), not from the operation. If any expected object is
// missing or different, the operation must have returned a non-nil error; if it returned nil the
// destination must be complete and storage.Copy's count must equal the number of objects.
//
// Part 2 (c15_atomic_test.go): atomic puts on disk are all-or-nothing.
package c15

import (
	"archive/tar"
	"archive/zip"
	"bytes"
	"context"
	"encoding/json"
	"fmt"
	"io"
	"log/slog"
	"os"
	"path/filepath"
	"sort"
	"strings"
	"testing"

	"github.com/bufbuild/buf/private/bufpkg/bufcas"
	"github.com/bufbuild/buf/private/bufpkg/bufconfig"
	"github.com/bufbuild/buf/private/bufpkg/bufmodule"
	"github.com/bufbuild/buf/private/bufpkg/bufmodule/bufmodulestore"
	"github.com/bufbuild/buf/private/bufpkg/bufprotoplugin/bufprotopluginos"
	"github.com/bufbuild/buf/private/pkg/filelock"
	"github.com/bufbuild/buf/private/pkg/normalpath"
	"github.com/bufbuild/buf/private/pkg/storage"
	"github.com/bufbuild/buf/private/pkg/storage/storagearchive"
	"github.com/bufbuild/buf/private/pkg/storage/storagemem"
	"github.com/bufbuild/buf/private/pkg/storage/storageos"
	"github.com/bufbuild/buf/private/pkg/thread"
	"github.com/bufbuild/bufverif/internal/evid"
	"github.com/bufbuild/bufverif/internal/faultx"
	"google.golang.org/protobuf/proto"
	"google.golang.org/protobuf/types/pluginpb"
	"pgregory.net/rapid"
)

func TestMain(m *testing.M) {
	if os.Getenv("VERIF_CHILD") != "" {
		os.Exit(childMain())
	}
	evid.Main(m, "C15")
}

var discardLogger = slog.New(slog.NewTextHandler(io.Discard, nil))

// ---------------------------------------------------------------------------------------------
// case

// allOps lists every operation with its share of the case budget (quick, thorough totals).
var allOps = []struct {
	name            string
	quick, thorough int
}{
	{"Copy", 48, 900}, {"CopyPath", 14, 250}, {"CopyReadObject", 12, 200}, {"CopyReader", 14, 250},
	{"PutPath", 12, 200}, {"ForWriteObject", 14, 250}, {"LimitCopy", 14, 250}, {"Untar", 14, 250},
	{"Unzip", 14, 250}, {"PutFileSet", 14, 250}, {"ModuleStore", 32, 600}, {"PutBufYAML", 12, 150},
	{"PutBufLock", 12, 150}, {"ResponseWriter", 14, 250}, {"Tar", 16, 250}, {"Zip", 16, 250},
	{"ResponseWriterMulti", 24, 400},
}

type faultSpec struct {
	Mode    string `json:"mode"` // fail | crash | writer | budget | limit | blocked
	K       int    `json:"k"`
	Variant string `json:"variant,omitempty"`
	Short   bool   `json:"short,omitempty"`
	Sticky  bool   `json:"sticky,omitempty"`
}

type opCase struct {
	Op         string             `json:"op"`
	Objects    []faultx.FileSpec  `json:"objects"`
	SrcDisk    bool               `json:"src_disk"`
	DstDisk    bool               `json:"dst_disk"`
	Atomic     bool               `json:"atomic"`
	Pre        int                `json:"pre"` // 0 empty destination, 1 stale content at every path, 2 at every other path
	Pick       int                `json:"pick"`
	Chunk      int                `json:"chunk"`
	Par        int                `json:"par"`
	Compressed bool               `json:"compressed"`
	TarLayout  bool               `json:"tar_layout"`
	Prefix     string             `json:"prefix"`
	Module     *faultx.ModuleSpec `json:"module,omitempty"`
	// ResponseWriterMulti: the kinds (dir | zip | jar) of the output locations, in the order the responses
	// are added, and the location the faults are injected into
	Outs   []string   `json:"outs,omitempty"`
	Target int        `json:"target,omitempty"`
	Fault  *faultSpec `json:"fault,omitempty"`
}

func (c opCase) outName(i int) string {
	if c.Outs[i] == "dir" {
		return fmt.Sprintf("out%d", i)
	}
	return fmt.Sprintf("out%d.%s", i, c.Outs[i])
}

func (c opCase) canon() string {
	c.Fault = nil
	b, _ := json.Marshal(c)
	return string(b)
}

func genCase(t *rapid.T, op string) opCase {
	c := opCase{Op: op}
	c.Objects = faultx.GenFiles(t, 1, 10)
	c.SrcDisk = rapid.IntRange(0, 3).Draw(t, "srcdisk") == 0
	c.DstDisk = rapid.IntRange(0, 2).Draw(t, "dstdisk") == 0
	c.Atomic = rapid.Bool().Draw(t, "atomic")
	c.Pre = rapid.IntRange(0, 2).Draw(t, "pre")
	c.Pick = rapid.IntRange(0, len(c.Objects)-1).Draw(t, "pick")
	c.Chunk = rapid.SampledFrom([]int{1 << 20, 4096, 20000, 33000}).Draw(t, "chunk")
	c.Par = 1
	if rapid.IntRange(0, 4).Draw(t, "parallel") == 0 {
		c.Par = rapid.IntRange(2, 8).Draw(t, "par")
	}
	c.Compressed = rapid.Bool().Draw(t, "compressed")
	c.TarLayout = rapid.Bool().Draw(t, "tarlayout")
	c.Prefix = rapid.SampledFrom([]string{".", "sub", "sub/dir"}).Draw(t, "prefix")
	switch c.Op {
	case "ModuleStore", "PutBufLock", "PutBufYAML":
		m := faultx.GenModule(t, 1, 1)
		m.Files = c.Objects
		c.Module = &m
		c.Pre = 0
	case "ResponseWriter":
		c.DstDisk = true
	case "ResponseWriterMulti":
		c.DstDisk = true
		c.Pre = 0
		n := rapid.IntRange(2, 4).Draw(t, "outs")
		for i := 0; i < n; i++ {
			kind := "dir"
			if rapid.IntRange(0, 3).Draw(t, "archive") == 0 {
				kind = rapid.SampledFrom([]string{"zip", "jar"}).Draw(t, "kind")
			}
			c.Outs = append(c.Outs, kind)
		}
		c.Target = rapid.IntRange(0, n-1).Draw(t, "target")
	}
	return c
}

// ---------------------------------------------------------------------------------------------
// preparing an operation

type prep struct {
	ctx       context.Context
	srcMap    map[string][]byte
	src       storage.ReadBucket
	expected  map[string][]byte // complete expected destination content
	wantCount int
	hasCount  bool
	// exactly one of these
	runBucket func(dst storage.ReadWriteBucket) (int, error)
	runWriter func(w io.Writer) error
	runDir    func(dir string, wrap func(storage.ReadWriteBucket) storage.ReadWriteBucket) error
	cleanup   []func()
	// writer ops: bytes of the clean run
	cleanBytes []byte
	// LimitCopy
	limit int
}

func (p *prep) close() {
	for _, f := range p.cleanup {
		f()
	}
}

type harnessErr struct{ msg string }

func herr(format string, args ...any) *harnessErr { return &harnessErr{fmt.Sprintf(format, args...)} }

func stale(f faultx.FileSpec) []byte { return faultx.Content(f.Seed+7777, f.Size+9) }

func prepare(c opCase) (*prep, *harnessErr) {
	ctx := context.Background()
	p := &prep{ctx: ctx, srcMap: map[string][]byte{}}
	for _, f := range c.Objects {
		p.srcMap[f.Path] = f.Data()
	}
	if len(c.Objects) == 0 {
		return nil, herr("no objects")
	}
	if c.SrcDisk {
		dir, err := os.MkdirTemp("", "c15src")
		if err != nil {
			return nil, herr("mkdtemp: %v", err)
		}
		p.cleanup = append(p.cleanup, func() { _ = os.RemoveAll(dir) })
		b, err := storageos.NewProvider().NewReadWriteBucket(dir)
		if err != nil {
			return nil, herr("storageos: %v", err)
		}
		for _, path := range faultx.SortedKeys(p.srcMap) {
			if err := storage.PutPath(ctx, b, path, p.srcMap[path]); err != nil {
				return nil, herr("fill source: %v", err)
			}
		}
		p.src = b
	} else {
		b, err := faultx.MemBucket(ctx, p.srcMap)
		if err != nil {
			return nil, herr("fill source: %v", err)
		}
		p.src = b
	}
	pick := c.Objects[c.Pick%len(c.Objects)]
	var copyOpts []storage.CopyOption
	var putOpts []storage.PutOption
	if c.Atomic {
		copyOpts = append(copyOpts, storage.CopyWithAtomic())
		putOpts = append(putOpts, storage.PutWithAtomic())
	}
	one := map[string][]byte{pick.Path: pick.Data()}
	switch c.Op {
	case "Copy":
		p.expected, p.hasCount, p.wantCount = p.srcMap, true, len(p.srcMap)
		p.runBucket = func(dst storage.ReadWriteBucket) (int, error) { return storage.Copy(ctx, p.src, dst, copyOpts...) }
	case "LimitCopy":
		total := 0
		for _, d := range p.srcMap {
			total += len(d)
		}
		p.limit = total + c.Chunk%97
		p.expected, p.hasCount, p.wantCount = p.srcMap, true, len(p.srcMap)
		p.runBucket = func(dst storage.ReadWriteBucket) (int, error) {
			return storage.Copy(ctx, p.src, storage.LimitWriteBucket(dst, p.limit), copyOpts...)
		}
	case "CopyPath":
		to := "moved/" + pick.Path
		p.expected = map[string][]byte{to: pick.Data()}
		p.runBucket = func(dst storage.ReadWriteBucket) (int, error) {
			return 0, storage.CopyPath(ctx, p.src, pick.Path, dst, to, copyOpts...)
		}
	case "CopyReadObject":
		p.expected = one
		p.runBucket = func(dst storage.ReadWriteBucket) (_ int, retErr error) {
			ro, err := p.src.Get(ctx, pick.Path)
			if err != nil {
				return 0, fmt.Errorf("harness: source get: %w", err)
			}
			defer ro.Close()
			return 0, storage.CopyReadObject(ctx, dst, ro, copyOpts...)
		}
	case "CopyReader":
		p.expected = one
		p.runBucket = func(dst storage.ReadWriteBucket) (int, error) {
			return 0, storage.CopyReader(ctx, dst, &faultx.ChunkReader{Data: pick.Data(), Chunk: c.Chunk}, pick.Path)
		}
	case "PutPath":
		p.expected = one
		p.runBucket = func(dst storage.ReadWriteBucket) (int, error) {
			return 0, storage.PutPath(ctx, dst, pick.Path, pick.Data(), putOpts...)
		}
	case "ForWriteObject":
		p.expected = one
		p.runBucket = func(dst storage.ReadWriteBucket) (int, error) {
			return 0, storage.ForWriteObject(ctx, dst, pick.Path, func(w storage.WriteObject) error {
				_, err := io.Copy(w, &faultx.ChunkReader{Data: pick.Data(), Chunk: c.Chunk})
				return err
			}, putOpts...)
		}
	case "Untar":
		var buf bytes.Buffer
		tw := tar.NewWriter(&buf)
		for _, path := range faultx.SortedKeys(p.srcMap) {
			if err := tw.WriteHeader(&tar.Header{Typeflag: tar.TypeReg, Name: path, Size: int64(len(p.srcMap[path])), Mode: 0o644}); err != nil {
				return nil, herr("tar: %v", err)
			}
			if _, err := tw.Write(p.srcMap[path]); err != nil {
				return nil, herr("tar: %v", err)
			}
		}
		if err := tw.Close(); err != nil {
			return nil, herr("tar: %v", err)
		}
		data := buf.Bytes()
		p.expected = p.srcMap
		p.runBucket = func(dst storage.ReadWriteBucket) (int, error) {
			return 0, storagearchive.Untar(ctx, bytes.NewReader(data), dst)
		}
	case "Unzip":
		var buf bytes.Buffer
		zw := zip.NewWriter(&buf)
		for _, path := range faultx.SortedKeys(p.srcMap) {
			method := zip.Store
			if c.Compressed {
				method = zip.Deflate
			}
			w, err := zw.CreateHeader(&zip.FileHeader{Name: path, Method: method})
			if err != nil {
				return nil, herr("zip: %v", err)
			}
			if _, err := w.Write(p.srcMap[path]); err != nil {
				return nil, herr("zip: %v", err)
			}
		}
		if err := zw.Close(); err != nil {
			return nil, herr("zip: %v", err)
		}
		data := buf.Bytes()
		p.expected = p.srcMap
		p.runBucket = func(dst storage.ReadWriteBucket) (int, error) {
			return 0, storagearchive.Unzip(ctx, bytes.NewReader(data), int64(len(data)), dst)
		}
	case "PutFileSet":
		fileSet, err := bufcas.NewFileSetForBucket(ctx, p.src)
		if err != nil {
			return nil, herr("file set: %v", err)
		}
		p.expected = p.srcMap
		p.runBucket = func(dst storage.ReadWriteBucket) (int, error) {
			return 0, bufcas.PutFileSetToBucket(ctx, fileSet, dst)
		}
	case "ModuleStore":
		if c.Module == nil {
			return nil, herr("ModuleStore without module")
		}
		_, data, err := c.Module.ModuleData(ctx)
		if err != nil {
			return nil, herr("module data: %v", err)
		}
		var opts []bufmodulestore.ModuleDataStoreOption
		if c.TarLayout {
			opts = append(opts, bufmodulestore.ModuleDataStoreWithTar())
		}
		p.expected = nil // learned from the clean run (entry layout is the store's business)
		p.runBucket = func(dst storage.ReadWriteBucket) (int, error) {
			store := bufmodulestore.NewModuleDataStore(discardLogger, dst, filelock.NewNopLocker(), opts...)
			return 0, store.PutModuleDatas(ctx, []bufmodule.ModuleData{data})
		}
	case "PutBufYAML":
		text := "version: v1\nname: " + c.Module.Name + "\n"
		if len(c.Module.Deps) > 0 {
			text += "deps:\n"
			for _, d := range c.Module.Deps {
				text += "  - " + d.Name + "\n"
			}
		}
		text += "lint:\n  use:\n    - DEFAULT\n"
		f, err := bufconfig.ReadBufYAMLFile(strings.NewReader(text), "buf.yaml")
		if err != nil {
			return nil, herr("buf.yaml: %v", err)
		}
		var want bytes.Buffer
		if err := bufconfig.WriteBufYAMLFile(&want, f); err != nil {
			return nil, herr("buf.yaml write: %v", err)
		}
		p.expected = map[string][]byte{normalpath.Join(c.Prefix, "buf.yaml"): want.Bytes()}
		p.runBucket = func(dst storage.ReadWriteBucket) (int, error) {
			return 0, bufconfig.PutBufYAMLFileForPrefix(ctx, dst, c.Prefix, f)
		}
	case "PutBufLock":
		var deps []bufmodule.ModuleKey
		for _, d := range c.Module.Deps {
			digest := d.Digest
			if strings.HasPrefix(digest, "shake256:") {
				digest = "b5:" + strings.TrimPrefix(digest, "shake256:")
			}
			k, err := faultx.NewKey(d.Name, d.Commit, digest)
			if err != nil {
				return nil, herr("dep key: %v", err)
			}
			deps = append(deps, k)
		}
		f, err := bufconfig.NewBufLockFile(bufconfig.FileVersionV2, deps, nil)
		if err != nil {
			return nil, herr("buf.lock: %v", err)
		}
		var want bytes.Buffer
		if err := bufconfig.WriteBufLockFile(&want, f); err != nil {
			return nil, herr("buf.lock write: %v", err)
		}
		p.expected = map[string][]byte{normalpath.Join(c.Prefix, "buf.lock"): want.Bytes()}
		p.runBucket = func(dst storage.ReadWriteBucket) (int, error) {
			return 0, bufconfig.PutBufLockFileForPrefix(ctx, dst, c.Prefix, f)
		}
	case "ResponseWriter":
		resp := &pluginpb.CodeGeneratorResponse{}
		for _, path := range faultx.SortedKeys(p.srcMap) {
			resp.File = append(resp.File, &pluginpb.CodeGeneratorResponse_File{
				Name:    proto.String(path),
				Content: proto.String(string(p.srcMap[path])),
			})
		}
		p.expected = p.srcMap
		p.runDir = func(dir string, wrap func(storage.ReadWriteBucket) storage.ReadWriteBucket) error {
			rw := bufprotopluginos.NewResponseWriter(discardLogger, wrapProvider{wrap: wrap}, bufprotopluginos.ResponseWriterWithCreateOutDirIfNotExists())
			if err := rw.AddResponse(ctx, resp, dir); err != nil {
				return err
			}
			return rw.Close()
		}
	case "ResponseWriterMulti":
		// one response per output location (objects dealt round-robin; a location may get none)
		resps := make([]*pluginpb.CodeGeneratorResponse, len(c.Outs))
		for i := range resps {
			resps[i] = &pluginpb.CodeGeneratorResponse{}
		}
		for i, path := range faultx.SortedKeys(p.srcMap) {
			resps[i%len(resps)].File = append(resps[i%len(resps)].File, &pluginpb.CodeGeneratorResponse_File{
				Name:    proto.String(path),
				Content: proto.String(string(p.srcMap[path])),
			})
		}
		p.expected = nil // learned from the clean run (zip bytes are the writer's business)
		p.runDir = func(dir string, wrap func(storage.ReadWriteBucket) storage.ReadWriteBucket) error {
			rw := bufprotopluginos.NewResponseWriter(discardLogger, wrapProvider{wrap: wrap}, bufprotopluginos.ResponseWriterWithCreateOutDirIfNotExists())
			for i := range c.Outs {
				if err := rw.AddResponse(ctx, resps[i], filepath.Join(dir, c.outName(i))); err != nil {
					return err
				}
			}
			return rw.Close()
		}
	case "Tar":
		p.runWriter = func(w io.Writer) error { return storagearchive.Tar(ctx, p.src, w) }
	case "Zip":
		p.runWriter = func(w io.Writer) error { return storagearchive.Zip(ctx, p.src, w, c.Compressed) }
	default:
		return nil, herr("unknown op %q", c.Op)
	}
	return p, nil
}

type wrapProvider struct {
	wrap func(storage.ReadWriteBucket) storage.ReadWriteBucket
}

func (w wrapProvider) NewReadWriteBucket(rootPath string, options ...storageos.ReadWriteBucketOption) (storage.ReadWriteBucket, error) {
	b, err := storageos.NewProvider().NewReadWriteBucket(rootPath, options...)
	if err != nil {
		return nil, err
	}
	return w.wrap(b), nil
}

// ---------------------------------------------------------------------------------------------
// one run

type outcome struct {
	err       error
	count     int
	dest      map[string][]byte
	events    []faultx.Event
	disturbed bool
}

func runOnce(c opCase, p *prep, plan faultx.Plan) (outcome, *harnessErr) {
	return runOnceX(c, p, plan, false)
}

// runOnceX: block additionally puts a directory where an archive output has to be created.
func runOnceX(c opCase, p *prep, plan faultx.Plan, block bool) (outcome, *harnessErr) {
	var o outcome
	ctx := p.ctx
	var under storage.ReadWriteBucket
	var dir string
	if c.DstDisk {
		var err error
		dir, err = os.MkdirTemp("", "c15dst")
		if err != nil {
			return o, herr("mkdtemp: %v", err)
		}
		defer os.RemoveAll(dir)
		under, err = storageos.NewProvider().NewReadWriteBucket(dir)
		if err != nil {
			return o, herr("storageos: %v", err)
		}
	} else {
		under = storagemem.NewReadWriteBucket()
	}
	if c.Pre != 0 && p.expected != nil {
		byPath := map[string]faultx.FileSpec{}
		for _, f := range c.Objects {
			byPath[f.Path] = f
		}
		for i, path := range faultx.SortedKeys(p.expected) {
			if c.Pre == 2 && i%2 == 1 {
				continue
			}
			old := append([]byte("stale:"), p.expected[path]...)
			if f, ok := byPath[path]; ok {
				old = stale(f)
			}
			if err := storage.PutPath(ctx, under, path, old); err != nil {
				return o, herr("prepopulate: %v", err)
			}
		}
	}
	thread.SetParallelism(c.Par)
	defer thread.SetParallelism(1)
	var fb *faultx.Bucket
	// the n-th bucket handed out is the n-th directory location flushed; only the target one is disturbed
	dirTarget, blocked := 0, ""
	if c.Op == "ResponseWriterMulti" {
		for i := 0; i < c.Target; i++ {
			if c.Outs[i] == "dir" {
				dirTarget++
			}
		}
		if c.Outs[c.Target] != "dir" {
			dirTarget = -1
			if block {
				// something that is not a file sits where the archive has to be created
				blocked = filepath.Join(dir, c.outName(c.Target))
				if err := os.MkdirAll(filepath.Join(blocked, "in-the-way"), 0o755); err != nil {
					return o, herr("mkdir: %v", err)
				}
			}
		}
	}
	handed := 0
	wrap := func(b storage.ReadWriteBucket) storage.ReadWriteBucket {
		x := faultx.New(b, faultx.Count())
		if handed == dirTarget {
			x = faultx.New(b, plan)
			fb = x
		}
		handed++
		return x
	}
	if p.runDir != nil {
		o.err = p.runDir(dir, wrap)
	} else {
		o.count, o.err = p.runBucket(wrap(under))
	}
	if o.err != nil && strings.Contains(o.err.Error(), "harness:") {
		return o, herr("%v", o.err)
	}
	if fb != nil {
		o.events = fb.Log()
		o.disturbed = fb.Disturbed()
	}
	if blocked != "" {
		o.disturbed = true
		if err := os.RemoveAll(filepath.Join(blocked, "in-the-way")); err != nil {
			return o, herr("cleanup: %v", err)
		}
	}
	var err error
	if c.DstDisk {
		o.dest, err = faultx.SnapshotDir(dir)
	} else {
		o.dest, err = faultx.ReadAll(ctx, under)
	}
	if err != nil {
		return o, herr("read destination: %v", err)
	}
	if fb != nil {
		fb.Reap()
	}
	return o, nil
}

// incomplete returns a description of the first expected object that is missing or different.
func incomplete(expected, dest map[string][]byte) string {
	for _, path := range faultx.SortedKeys(expected) {
		got, ok := dest[path]
		if !ok {
			return fmt.Sprintf("object %q missing", path)
		}
		if !bytes.Equal(got, expected[path]) {
			return fmt.Sprintf("object %q has %d bytes, differs from the expected %d bytes (first difference at %d)", path, len(got), len(expected[path]), firstDiff(got, expected[path]))
		}
	}
	return ""
}

func firstDiff(a, b []byte) int {
	n := min(len(a), len(b))
	for i := 0; i < n; i++ {
		if a[i] != b[i] {
			return i
		}
	}
	return n
}

// judge is the oracle for one run of a bucket operation.
func judge(c opCase, p *prep, o outcome, what string) (string, string) {
	if o.err != nil {
		return "", ""
	}
	if why := incomplete(p.expected, o.dest); why != "" {
		return "error-swallowed:" + c.Op, fmt.Sprintf("%s with %s returned a nil error but the destination is incomplete: %s", c.Op, what, why)
	}
	if p.hasCount && o.count != p.wantCount {
		return "copy-count-wrong", fmt.Sprintf("%s with %s returned (%d, nil) for %d objects", c.Op, what, o.count, p.wantCount)
	}
	return "", ""
}

func planFor(f faultSpec) (faultx.Plan, *harnessErr) {
	switch f.Mode {
	case "crash":
		return faultx.CrashAt(f.K), nil
	case "fail":
		for _, v := range []faultx.Variant{faultx.VarError, faultx.VarShortWrite, faultx.VarCloseForwarded} {
			if v.String() == f.Variant {
				return faultx.FailAt(f.K, v), nil
			}
		}
	}
	return faultx.Plan{}, herr("bad fault spec %+v", f)
}

type sweepStats struct {
	positions   int
	interior    int
	runs        int
	fired       int
	notReached  int
	errReturned int
}

// sweepBucketOp learns E and injects at every k. fail is called for a falsified oracle; it
// returns true if the sweep should go on (open known finding).
func sweepBucketOp(c opCase, p *prep, only *faultSpec, st *sweepStats, fail func(key, msg string, c opCase) bool) *harnessErr {
	clean, he := runOnce(c, p, faultx.Count())
	if he != nil {
		return he
	}
	if clean.err != nil {
		return herr("clean run of %s failed: %v", c.Op, clean.err)
	}
	if p.expected == nil {
		p.expected = clean.dest
	} else if why := incomplete(p.expected, clean.dest); why != "" {
		return herr("clean run of %s does not produce the reference content: %s", c.Op, why)
	}
	if p.hasCount && clean.count != p.wantCount {
		return herr("clean run of %s returned count %d want %d", c.Op, clean.count, p.wantCount)
	}
	if c.Op == "ResponseWriterMulti" && c.Outs[c.Target] != "dir" {
		// the archive is written with os.Create, not through a bucket: the only fault is a path that cannot be created
		o, he := runOnceX(c, p, faultx.Count(), true)
		if he != nil {
			return he
		}
		st.runs++
		st.fired++
		st.positions++
		st.interior++
		if o.err != nil {
			st.errReturned++
		}
		evid.R().Eval()
		evid.R().Class("fault:archive-path-blocked")
		if key, msg := judge(c, p, o, fmt.Sprintf("a directory in the way of output %d (%s) of %v", c.Target, c.outName(c.Target), c.Outs)); key != "" {
			cc := c
			cc.Fault = &faultSpec{Mode: "blocked"}
			fail(key, msg, cc)
		}
		return nil
	}
	E := len(clean.events)
	if E == 0 {
		if c.Op == "ResponseWriterMulti" {
			evid.R().Class("multi:target-location-empty")
			return nil
		}
		return herr("clean run of %s has no events", c.Op)
	}
	try := func(f faultSpec) (bool, *harnessErr) {
		plan, he := planFor(f)
		if he != nil {
			return false, he
		}
		o, he := runOnce(c, p, plan)
		if he != nil {
			return false, he
		}
		st.runs++
		if o.disturbed {
			st.fired++
		} else {
			st.notReached++
		}
		if o.err != nil {
			st.errReturned++
		}
		evid.R().Eval()
		what := fmt.Sprintf("%s injected at event %d of %d (%s)", f.Mode+"/"+f.Variant, f.K, E, describe(clean.events, f.K))
		if key, msg := judge(c, p, o, what); key != "" {
			cc := c
			ff := f
			cc.Fault = &ff
			return fail(key, msg, cc), nil
		}
		return true, nil
	}
	if only != nil {
		if only.Mode == "limit" {
			return sweepLimit(c, p, only, st, fail)
		}
		_, he := try(*only)
		return he
	}
	for k := 0; k < E; k++ {
		st.positions++
		if k > 0 && k < E-1 {
			st.interior++
		}
		variants := faultx.Variants(clean.events[k].Kind)
		if c.Par > 1 {
			variants = []faultx.Variant{faultx.VarError, faultx.VarShortWrite, faultx.VarCloseForwarded}
		}
		for _, v := range variants {
			goOn, he := try(faultSpec{Mode: "fail", K: k, Variant: v.String()})
			if he != nil || !goOn {
				return he
			}
			if c.Par > 1 {
				evid.R().Class("fault:parallel(any-kind)/" + v.String())
			} else {
				evid.R().Class("fault:" + clean.events[k].KindS + "/" + v.String())
			}
		}
		goOn, he := try(faultSpec{Mode: "crash", K: k})
		if he != nil || !goOn {
			return he
		}
		evid.R().Class("fault:crash")
	}
	if c.Op == "LimitCopy" {
		return sweepLimit(c, p, nil, st, fail)
	}
	return nil
}

func describe(events []faultx.Event, k int) string {
	if k < 0 || k >= len(events) {
		return "?"
	}
	e := events[k]
	return fmt.Sprintf("%s %q len=%d", e.KindS, e.Path, e.Len)
}

// sweepLimit: storage.Copy into LimitWriteBucket with every limit around each cumulative object
// boundary below the total size: the copy cannot complete, so it must return an error.
func sweepLimit(c opCase, p *prep, only *faultSpec, st *sweepStats, fail func(key, msg string, c opCase) bool) *harnessErr {
	total := 0
	limits := map[int]bool{}
	for _, path := range faultx.SortedKeys(p.srcMap) {
		for _, d := range []int{-1, 0, 1} {
			limits[total+d] = true
		}
		total += len(p.srcMap[path])
	}
	for _, l := range []int{0, 1, total / 2, total - 1} {
		limits[l] = true
	}
	var ls []int
	for l := range limits {
		if l >= 0 && l < total {
			ls = append(ls, l)
		}
	}
	sort.Ints(ls)
	if only != nil {
		ls = []int{only.K}
	}
	saved := p.limit
	defer func() { p.limit = saved }()
	for _, l := range ls {
		p.limit = l
		o, he := runOnce(c, p, faultx.Count())
		if he != nil {
			return he
		}
		st.runs++
		st.positions++
		evid.R().Eval()
		evid.R().Class("fault:limit-exhausted")
		if key, msg := judge(c, p, o, fmt.Sprintf("write limit %d of %d total bytes", l, total)); key != "" {
			cc := c
			cc.Fault = &faultSpec{Mode: "limit", K: l}
			if !fail(key, msg, cc) {
				return nil
			}
		}
	}
	return nil
}

// sweepWriterOp: Tar/Zip into a writer failing at every Write call (plain, short, sticky) and at
// a few byte budgets.
func sweepWriterOp(c opCase, p *prep, only *faultSpec, st *sweepStats, fail func(key, msg string, c opCase) bool) *harnessErr {
	thread.SetParallelism(1)
	w := faultx.NewWriter()
	if err := p.runWriter(w); err != nil {
		return herr("clean run of %s failed: %v", c.Op, err)
	}
	p.cleanBytes = w.Bytes()
	N := w.Calls()
	if N == 0 {
		return herr("clean run of %s wrote nothing", c.Op)
	}
	try := func(f faultSpec) bool {
		fw := faultx.NewWriter()
		switch f.Mode {
		case "writer":
			fw.FailCall, fw.Short, fw.Sticky = f.K, f.Short, f.Sticky
		case "budget":
			fw.ByteBudget = f.K
		}
		err := p.runWriter(fw)
		st.runs++
		if fw.Failed() {
			st.fired++
		}
		evid.R().Eval()
		if err != nil {
			st.errReturned++
			return true
		}
		if !bytes.Equal(fw.Bytes(), p.cleanBytes) {
			cc := c
			ff := f
			cc.Fault = &ff
			return fail("error-swallowed:"+c.Op, fmt.Sprintf("%s returned a nil error although the writer failed (%+v); it accepted %d of %d bytes", c.Op, f, len(fw.Bytes()), len(p.cleanBytes)), cc)
		}
		return true
	}
	if only != nil {
		try(*only)
		return nil
	}
	for k := 0; k < N; k++ {
		st.positions++
		if k > 0 && k < N-1 {
			st.interior++
		}
		for _, f := range []faultSpec{
			{Mode: "writer", K: k},
			{Mode: "writer", K: k, Short: true},
			{Mode: "writer", K: k, Sticky: true},
		} {
			if !try(f) {
				return nil
			}
		}
		evid.R().ClassN("fault:writer-call", 3)
	}
	total := len(p.cleanBytes)
	for _, b := range []int{0, 1, 511, 512, 513, total / 2, total - 513, total - 1} {
		if b < 0 || b >= total {
			continue
		}
		st.positions++
		if !try(faultSpec{Mode: "budget", K: b}) {
			return nil
		}
		evid.R().Class("fault:writer-byte-budget")
	}
	return nil
}

func isWriterOp(op string) bool { return op == "Tar" || op == "Zip" }

func runCase(c opCase, st *sweepStats, fail func(key, msg string, c opCase) bool) *harnessErr {
	p, he := prepare(c)
	if he != nil {
		return he
	}
	defer p.close()
	if isWriterOp(c.Op) {
		return sweepWriterOp(c, p, c.Fault, st, fail)
	}
	return sweepBucketOp(c, p, c.Fault, st, fail)
}

// ---------------------------------------------------------------------------------------------

var totalPositions, totalInterior, totalRuns int

func TestFaultSweep(t *testing.T) {
	r := evid.R()
	for i, op := range allOps {
		t.Run(op.name, func(t *testing.T) {
			r.Check(t, r.Scale(op.quick, op.thorough), 10+i, func(t *rapid.T) {
				sweepOneCase(t, r, genCase(t, op.name))
			})
		})
	}
	r.Extra("fault_positions_enumerated", totalPositions)
	r.Extra("interior_fault_positions", totalInterior)
	r.Extra("faulted_runs", totalRuns)
}

func sweepOneCase(t *rapid.T, r *evid.Recorder, c opCase) {
	var st sweepStats
	he := runCase(c, &st, func(key, msg string, cc opCase) bool {
		return r.Fail(t, key, msg, cc)
	})
	if he != nil {
		t.Fatalf("harness: %s (case %s)", he.msg, c.canon())
	}
	totalPositions += st.positions
	totalInterior += st.interior
	totalRuns += st.runs
	r.Class("op:" + c.Op)
	if isWriterOp(c.Op) {
		r.Class("dest:writer")
	} else if c.DstDisk {
		r.Class("dest:disk")
	} else {
		r.Class("dest:mem")
	}
	if c.Par > 1 {
		r.Class("parallel-copy")
	}
	if c.Atomic {
		r.Class("atomic-option")
	}
	if c.Pre != 0 {
		r.Class("stale-destination")
	}
	r.ClassN("runs:fault-fired", st.fired)
	r.ClassN("runs:fault-not-reached", st.notReached)
	r.ClassN("runs:error-returned", st.errReturned)
	if st.interior > 0 {
		r.NonTrivial(c.canon())
		r.Sample(map[string]any{"op": c.Op, "objects": len(c.Objects), "dst_disk": c.DstDisk, "atomic": c.Atomic, "par": c.Par, "events": st.positions, "runs": st.runs})
	}
}

// TestReplay re-runs the oracle on a saved case: the single recorded fault if there is one,
// otherwise the whole sweep of that case.
func TestReplay(t *testing.T) {
	if strings.Contains(evid.ReplayTest(), "TestCLIWrites") {
		replayCLI(t)
		return
	}
	if evid.ReplayTest() != "" && !strings.Contains(evid.ReplayTest(), "TestFaultSweep") {
		replayAtomic(t)
		return
	}
	var c opCase
	ok, err := evid.ReplayCase(&c)
	if !ok {
		t.Skip("no VERIF_REPLAY")
	}
	if err != nil {
		t.Fatal(err)
	}
	r := evid.R()
	defer r.Begin(t)()
	var st sweepStats
	he := runCase(c, &st, func(key, msg string, cc opCase) bool { return r.Fail(t, key, msg, cc) })
	if he != nil {
		t.Fatalf("harness: %s", he.msg)
	}
}
