package c17

// Level 2: `buf generate` in-process with the recording / scripted plugin protoc-gen-verifrec.

import (
	"archive/zip"
	"bytes"
	"context"
	"encoding/json"
	"fmt"
	"io"
	"os"
	"path"
	"path/filepath"
	"sort"
	"strings"
	"testing"

	"github.com/bufbuild/buf/private/bufpkg/bufimage"
	"github.com/bufbuild/buf/private/bufpkg/bufimage/bufimageutil"
	"github.com/bufbuild/bufverif/internal/bufcli"
	"github.com/bufbuild/bufverif/internal/bufx"
	"github.com/bufbuild/bufverif/internal/evid"
	"github.com/bufbuild/bufverif/internal/protogen"
	"google.golang.org/protobuf/proto"
	"google.golang.org/protobuf/types/pluginpb"
	"pgregory.net/rapid"
)

// ScriptFile is one CodeGeneratorResponse.File the plugin is told to return.
type ScriptFile struct {
	Name           string `json:"name"`
	Content        string `json:"content"`
	InsertionPoint string `json:"insertion_point,omitempty"`
}

// Plugin is one plugin entry of buf.gen.yaml plus its scripted behaviour.
type Plugin struct {
	Opt            string       `json:"opt"` // unique per entry; selects the script
	Out            string       `json:"out"` // as written in buf.gen.yaml (relative to the working directory, or absolute)
	Strategy       string       `json:"strategy,omitempty"`
	IncludeImports bool         `json:"include_imports,omitempty"`
	IncludeWKT     bool         `json:"include_wkt,omitempty"`
	Types          []string     `json:"types,omitempty"`
	ExcludeTypes   []string     `json:"exclude_types,omitempty"`
	PerRequest     bool         `json:"per_request,omitempty"` // every returned name carries {first}
	Files          []ScriptFile `json:"files"`
	Error          string       `json:"error,omitempty"`
}

// GenCase is the replayable input of one Level-2 evaluation.
type GenCase struct {
	Kind        string            `json:"kind"` // l2
	Src         Src               `json:"src"`
	Version     string            `json:"version"` // v1 | v2
	Plugins     []Plugin          `json:"plugins"`
	Paths       []string          `json:"paths,omitempty"` // --path (image-root relative): only these are targets
	FlagImports string            `json:"flag_include_imports,omitempty"` // "", "true", "false"
	FlagWKT     string            `json:"flag_include_wkt,omitempty"`
	BaseOut     string            `json:"base_out,omitempty"`     // -o
	Template    string            `json:"template,omitempty"`     // "" = buf.gen.yaml in the working directory | flag
	Existing    map[string]string `json:"pre_existing,omitempty"` // files in the work area before the run (relative to it)
	AbsMarker   string            `json:"-"`
}

// outsideProbe is an absolute name far outside the scratch area that a hostile response asks for.
const outsideProbe = "/tmp/verif-c17-should-never-exist"

const absToken = "{ABS}" // in names / outs: replaced by the absolute path of the work area's parent

func pluginBinary(t fataler) string {
	dir := os.Getenv("VERIF_BUILD_DIR")
	if dir == "" {
		dir = "/verif/.build"
	}
	p := filepath.Join(dir, "protoc-gen-verifrec")
	if _, err := os.Stat(p); err != nil {
		t.Fatalf("harness: %s is missing (props.json aux builds it): %v", p, err)
	}
	return p
}

func (c *GenCase) template(plugin string, caseDir string) string {
	var b strings.Builder
	fmt.Fprintf(&b, "version: %s\nplugins:\n", c.Version)
	for _, p := range c.Plugins {
		out := strings.ReplaceAll(p.Out, absToken, caseDir)
		if c.Version == "v1" {
			fmt.Fprintf(&b, "  - plugin: verifrec\n    path: %s\n", plugin)
		} else {
			fmt.Fprintf(&b, "  - local: %s\n", plugin)
		}
		fmt.Fprintf(&b, "    out: %q\n    opt: %s\n", out, p.Opt)
		if p.Strategy != "" {
			fmt.Fprintf(&b, "    strategy: %s\n", p.Strategy)
		}
		if c.Version == "v2" {
			if p.IncludeImports {
				b.WriteString("    include_imports: true\n")
			}
			if p.IncludeWKT {
				b.WriteString("    include_wkt: true\n")
			}
			if len(p.Types) > 0 {
				b.WriteString("    types:\n")
				for _, x := range p.Types {
					fmt.Fprintf(&b, "      - %s\n", x)
				}
			}
			if len(p.ExcludeTypes) > 0 {
				b.WriteString("    exclude_types:\n")
				for _, x := range p.ExcludeTypes {
					fmt.Fprintf(&b, "      - %s\n", x)
				}
			}
		}
	}
	return b.String()
}

// ---------------------------------------------------------------------------------------------
// reference model of what the run must produce (written from plugin.proto's description of
// CodeGeneratorResponse.File, the buf generate documentation and the doc comments of
// bufgen.Generator / ValidatePluginResponses)

type respFile struct {
	name, content, ip string
}

type model struct {
	err     string                       // "" = the run must succeed
	errKey  string                       // classifier if such a run is accepted
	buckets map[string]map[string]string // absolute out (dir or archive) -> entry -> content
	order   []string
	inserts map[string]bool // abs out + "\x00" + entry that received an insertion (trailing newline not compared)
}

// cleanName is protoc's / the bucket's view of a plugin supplied name. ok=false: the name does not
// denote a file beneath the output location.
func cleanName(name string) (string, bool) {
	if name == "" {
		return "", false
	}
	c := path.Clean(filepath.ToSlash(name))
	if path.IsAbs(c) || c == ".." || strings.HasPrefix(c, "../") || c == "." {
		return c, false
	}
	return c, true
}

func insertAt(target, point, content string) (string, bool) {
	marker := "@@protoc_insertion_point(" + point + ")"
	lines := strings.Split(strings.TrimSuffix(target, "\n"), "\n")
	ins := strings.Split(strings.TrimSuffix(content, "\n"), "\n")
	if content == "" {
		ins = nil
	}
	var out []string
	found := false
	for _, l := range lines {
		if strings.Contains(l, marker) {
			found = true
			indent := l[:len(l)-len(strings.TrimLeft(l, " \t"))]
			for _, x := range ins {
				out = append(out, indent+x)
			}
		}
		out = append(out, l)
	}
	return strings.Join(out, "\n"), found
}

// expected computes the reference outcome. firsts[i] = the {first} value of every request recorded for plugin i.
func (c *GenCase) expected(area string, caseDir string, firsts [][]string) *model {
	m := &model{buckets: map[string]map[string]string{}, inserts: map[string]bool{}}
	fail := func(key, why string) *model {
		if m.err == "" {
			m.err, m.errKey = why, key
		}
		return m
	}
	perPlugin := make([][]respFile, len(c.Plugins))
	for i, p := range c.Plugins {
		if p.Error != "" {
			return fail("plugin-error-ignored", fmt.Sprintf("plugin %s reports error %q", p.Opt, p.Error))
		}
		var merged []respFile
		blocks := firsts[i]
		if !p.PerRequest && len(blocks) > 0 {
			// identical blocks: order of the parallel invocations does not matter
		}
		for _, first := range blocks {
			for _, f := range p.Files {
				sub := func(s string) string {
					return strings.ReplaceAll(strings.ReplaceAll(s, "{first}", first), absToken, caseDir)
				}
				merged = append(merged, respFile{sub(f.Name), sub(f.Content), f.InsertionPoint})
			}
		}
		if len(merged) == 0 {
			continue
		}
		// plugin.proto: a file without name continues the previous file; the first file must have a name;
		// an insertion point requires a name
		if merged[0].name == "" {
			return fail("hostile-name-accepted", fmt.Sprintf("plugin %s: first file has no name", p.Opt))
		}
		var named []respFile
		for _, f := range merged {
			if f.name == "" {
				if f.ip != "" {
					return fail("hostile-name-accepted", fmt.Sprintf("plugin %s: insertion point without file name", p.Opt))
				}
				named[len(named)-1].content += f.content
				continue
			}
			named = append(named, f)
		}
		seen := map[string]bool{}
		for _, f := range named {
			cn, ok := cleanName(f.name)
			if !ok {
				return fail("hostile-name-accepted", fmt.Sprintf("plugin %s returns the name %q which is not beneath its out", p.Opt, f.name))
			}
			f.name = cn
			if f.ip == "" {
				if seen[cn] {
					continue // the same plugin repeating a name: first one wins (a warning)
				}
				seen[cn] = true
			}
			perPlugin[i] = append(perPlugin[i], f)
		}
	}
	// one output path, two plugins
	owner := map[string]Plugin{}
	for i, p := range c.Plugins {
		abs := c.absOut(area, caseDir, p)
		for fi, f := range perPlugin[i] {
			if f.ip != "" {
				continue
			}
			k := abs + "\x00" + f.name
			if o, dup := owner[k]; dup && o.Opt != p.Opt {
				key := "duplicate-path-accepted"
				ownInsertionFirst := false
				for _, g := range perPlugin[i][:fi] {
					if g.ip != "" && g.name == f.name {
						ownInsertionFirst = true
					}
				}
				if ownInsertionFirst {
					// the same response first inserts into that file (of the earlier plugin) and then emits the file itself
					key += ":after-own-insertion-point"
				} else if filepath.Clean(o.Out) != filepath.Clean(p.Out) {
					// the same directory, once relative and once absolute
					key += ":abs-vs-relative-out"
				}
				return fail(key, fmt.Sprintf("plugins %s (out %q) and %s (out %q) both produce %s in %s", o.Opt, o.Out, p.Opt, p.Out, f.name, abs))
			}
			owner[k] = p
		}
	}
	for i, p := range c.Plugins {
		abs := c.absOut(area, caseDir, p)
		b, ok := m.buckets[abs]
		if !ok {
			b = map[string]string{}
			m.buckets[abs] = b
			m.order = append(m.order, abs)
			if filepath.Ext(abs) == ".jar" {
				b["META-INF/MANIFEST.MF"] = "Manifest-Version: 1.0\nCreated-By: 1.6.0 (protoc)\n\n"
			}
		}
		for _, f := range perPlugin[i] {
			if f.ip == "" {
				b[f.name] = f.content
				continue
			}
			cur, ok := b[f.name]
			if !ok {
				return fail("insertion-point-foreign-file", fmt.Sprintf("plugin %s inserts at %q into %s, which no plugin produced into %s before it in this run", p.Opt, f.ip, f.name, abs))
			}
			next, found := insertAt(cur, f.ip, f.content)
			if !found {
				return fail("insertion-point-missing-accepted", fmt.Sprintf("plugin %s: %s has no insertion point %q", p.Opt, f.name, f.ip))
			}
			b[f.name] = next
			m.inserts[abs+"\x00"+f.name] = true
		}
	}
	return m
}

func (c *GenCase) absOut(area, caseDir string, p Plugin) string {
	out := strings.ReplaceAll(p.Out, absToken, caseDir)
	if c.BaseOut != "" && c.BaseOut != "." {
		out = filepath.Join(c.BaseOut, out)
	}
	if !filepath.IsAbs(out) {
		out = filepath.Join(area, out)
	}
	return filepath.Clean(out)
}

// ---------------------------------------------------------------------------------------------
// observation

// snapshot maps every regular file beneath root to its content (directories: "<dir>").
func snapshot(t fataler, root string, skip ...string) map[string]string {
	out := map[string]string{}
	err := filepath.Walk(root, func(p string, info os.FileInfo, err error) error {
		if err != nil {
			return err
		}
		for _, s := range skip {
			if p == s {
				return filepath.SkipDir
			}
		}
		if info.IsDir() {
			out[p] = "<dir>"
			return nil
		}
		data, err := os.ReadFile(p)
		if err != nil {
			return err
		}
		out[p] = string(data)
		return nil
	})
	if err != nil {
		t.Fatalf("harness: snapshot: %v", err)
	}
	return out
}

func readZip(data string) (map[string]string, error) {
	zr, err := zip.NewReader(bytes.NewReader([]byte(data)), int64(len(data)))
	if err != nil {
		return nil, err
	}
	out := map[string]string{}
	for _, f := range zr.File {
		rc, err := f.Open()
		if err != nil {
			return nil, err
		}
		b, err := io.ReadAll(rc)
		rc.Close()
		if err != nil {
			return nil, err
		}
		if _, dup := out[f.Name]; dup {
			return nil, fmt.Errorf("entry %s twice", f.Name)
		}
		out[f.Name] = string(b)
	}
	return out, nil
}

func isArchive(p string) bool { return filepath.Ext(p) == ".zip" || filepath.Ext(p) == ".jar" }

func sameText(a, b string, lenientNewline bool) bool {
	if a == b {
		return true
	}
	return lenientNewline && strings.TrimSuffix(a, "\n") == strings.TrimSuffix(b, "\n")
}

// ---------------------------------------------------------------------------------------------

func (c *GenCase) diskPaths(root, p string) []string {
	var out []string
	for _, m := range c.Src.Mods {
		for f := range c.Src.Files[m.Dir] {
			if f == p || strings.HasPrefix(f, p+"/") {
				out = append(out, filepath.Join(root, filepath.FromSlash(m.Dir), filepath.FromSlash(p)))
				break
			}
		}
	}
	return out
}

// sourceImage builds the image `buf generate` derives its requests from: every module a target,
// restricted to c.Paths if given.
func (c *GenCase) sourceImage(ctx context.Context) (bufimage.Image, error) {
	specs := map[string]bufx.ModuleSpec{}
	if len(c.Paths) > 0 {
		for _, m := range c.Src.Mods {
			spec := bufx.ModuleSpec{}
			for _, p := range c.Paths {
				for f := range c.Src.Files[m.Dir] {
					if f == p || strings.HasPrefix(f, p+"/") {
						spec.Target = true
						spec.TargetPaths = append(spec.TargetPaths, p)
						break
					}
				}
			}
			specs[m.Dir] = spec
		}
	}
	return c.Src.buildSpecs(ctx, specs)
}

func runL2(ctx context.Context, t fataler, r *evid.Recorder, c *GenCase) {
	plugin := pluginBinary(t)
	caseDir, err := os.MkdirTemp("", "c17gen-")
	if err != nil {
		t.Fatalf("harness: %v", err)
	}
	defer os.RemoveAll(caseDir)
	if caseDir, err = filepath.EvalSymlinks(caseDir); err != nil {
		t.Fatalf("harness: %v", err)
	}
	area := filepath.Join(caseDir, "area")
	rec := filepath.Join(caseDir, "rec")
	home := filepath.Join(caseDir, "home")
	for _, d := range []string{area, rec, home} {
		if err := os.MkdirAll(d, 0o755); err != nil {
			t.Fatalf("harness: %v", err)
		}
	}
	root := filepath.Join(area, "ws")
	writeTree(t, root, c.Src.treeFiles(""))
	writeTree(t, area, c.Existing)
	tmplPath := filepath.Join(area, "buf.gen.yaml")
	if c.Template == "flag" {
		tmplPath = filepath.Join(caseDir, "tmpl", "gen.yaml")
	}
	writeTree(t, filepath.Dir(tmplPath), map[string]string{filepath.Base(tmplPath): c.template(plugin, caseDir)})
	scripts := map[string]any{}
	for _, p := range c.Plugins {
		files := make([]ScriptFile, len(p.Files))
		for i, f := range p.Files {
			f.Name = strings.ReplaceAll(f.Name, absToken, caseDir)
			files[i] = f
		}
		scripts[p.Opt] = map[string]any{"files": files, "error": p.Error}
	}
	sj, _ := json.Marshal(scripts)
	scriptPath := filepath.Join(caseDir, "script.json")
	if err := os.WriteFile(scriptPath, sj, 0o644); err != nil {
		t.Fatalf("harness: %v", err)
	}
	args := []string{"generate", "ws"}
	if c.Template == "flag" {
		args = append(args, "--template", tmplPath)
	}
	if c.BaseOut != "" {
		args = append(args, "-o", c.BaseOut)
	}
	for _, p := range c.Paths {
		for _, dp := range c.diskPaths("ws", p) {
			args = append(args, "--path", dp)
		}
	}
	if c.FlagImports != "" {
		args = append(args, "--include-imports="+c.FlagImports)
	}
	if c.FlagWKT != "" {
		args = append(args, "--include-wkt="+c.FlagWKT)
	}
	env := map[string]string{"HOME": home, "BUF_CACHE_DIR": filepath.Join(home, "cache"), "PATH": os.Getenv("PATH"), "VERIFREC_DIR": rec, "VERIFREC_SCRIPT": scriptPath}

	before := snapshot(t, caseDir, rec, home)
	// `out` and the default template are relative to the working directory: one process per shard and
	// sequential cases make a temporary chdir safe
	cwd, err := os.Getwd()
	if err != nil {
		t.Fatalf("harness: %v", err)
	}
	if err := os.Chdir(area); err != nil {
		t.Fatalf("harness: %v", err)
	}
	code, _, stderr := runCLI(ctx, env, args...)
	if err := os.Chdir(cwd); err != nil {
		panic("harness: cannot restore the working directory: " + err.Error())
	}
	after := snapshot(t, caseDir, rec, home)
	r.Eval()
	if _, err := os.Lstat(outsideProbe); err == nil {
		_ = os.Remove(outsideProbe)
		r.Fail(t, "escape-write", fmt.Sprintf("buf %s: the absolute name %s returned by a plugin was written", strings.Join(args, " "), outsideProbe), c)
		return
	}
	cmd := "buf " + strings.Join(args, " ")

	// --- recorded requests
	recorded := map[string][]*pluginpb.CodeGeneratorRequest{}
	entries, _ := os.ReadDir(rec)
	for _, e := range entries {
		if !strings.HasSuffix(e.Name(), ".binpb") {
			continue
		}
		data, err := os.ReadFile(filepath.Join(rec, e.Name()))
		if err != nil {
			t.Fatalf("harness: %v", err)
		}
		req := &pluginpb.CodeGeneratorRequest{}
		if err := proto.Unmarshal(data, req); err != nil {
			r.Fail(t, "request-undecodable", fmt.Sprintf("%s: plugin received a request that does not parse: %v", cmd, err), c)
			return
		}
		recorded[req.GetParameter()] = append(recorded[req.GetParameter()], req)
	}
	img, err := c.sourceImage(ctx)
	if err != nil {
		t.Fatalf("harness: generated workspace does not build: %v", err)
	}
	firsts := make([][]string, len(c.Plugins))
	filterFailed := false
	nontrivialL1 := false
	for i, p := range c.Plugins {
		reqs := recorded[p.Opt]
		sort.Slice(reqs, func(a, b int) bool {
			return strings.Join(reqs[a].GetFileToGenerate(), ",") < strings.Join(reqs[b].GetFileToGenerate(), ",")
		})
		for _, req := range reqs {
			first := "none"
			if len(req.GetFileToGenerate()) > 0 {
				first = strings.NewReplacer("/", "_", ".", "_").Replace(req.GetFileToGenerate()[0])
			}
			firsts[i] = append(firsts[i], first)
		}
		pimg := img
		if len(p.Types) > 0 || len(p.ExcludeTypes) > 0 {
			pimg, err = bufimageutil.FilterImage(img, bufimageutil.WithIncludeTypes(p.Types...), bufimageutil.WithExcludeTypes(p.ExcludeTypes...))
			if err != nil {
				filterFailed = true
				continue
			}
			r.Class("l2:type-filter")
		}
		views := viewsOfImage(pimg)
		res, err := newRefResolver(fdpsOf(views))
		if err != nil {
			r.Class("l2:filtered-image-not-self-contained(C12)")
			continue
		}
		exp := expectation{strategy: p.Strategy, includeImports: p.IncludeImports, includeWKT: p.IncludeWKT, param: p.Opt, files: views}
		if exp.strategy == "" {
			exp.strategy = "directory"
		}
		if c.FlagImports != "" {
			exp.includeImports = c.FlagImports == "true"
		}
		if c.FlagWKT != "" {
			exp.includeWKT = c.FlagWKT == "true"
		}
		exp.partial = code != 0
		nTargets := 0
		for _, v := range views {
			if !v.IsImport {
				nTargets++
			}
		}
		if nTargets == 0 {
			// the type filter left no target file: nothing is promised about the (possibly absent) requests
			r.Class("l2:filtered-image-has-no-targets")
			continue
		}
		if len(reqs) == 0 {
			if code == 0 {
				r.Fail(t, "not-generated", fmt.Sprintf("%s: exit 0 but plugin entry %s never received a request", cmd, p.Opt), c)
				return
			}
			continue
		}
		key, msg, stats := checkRequests(res, exp, reqs)
		if key == "harness" {
			t.Fatalf("harness: %s", msg)
		}
		if key != "" {
			// diagnosis: do the requests fit the image of ANOTHER plugin entry's type filter?
			for _, q := range c.Plugins {
				if q.Opt == p.Opt || fmt.Sprint(q.Types, q.ExcludeTypes) == fmt.Sprint(p.Types, p.ExcludeTypes) {
					continue
				}
				qimg := img
				if len(q.Types) > 0 || len(q.ExcludeTypes) > 0 {
					if qimg, err = bufimageutil.FilterImage(img, bufimageutil.WithIncludeTypes(q.Types...), bufimageutil.WithExcludeTypes(q.ExcludeTypes...)); err != nil {
						continue
					}
				}
				qviews := viewsOfImage(qimg)
				qres, err := newRefResolver(fdpsOf(qviews))
				if err != nil {
					continue
				}
				qexp := exp
				qexp.files = qviews
				if k2, _, _ := checkRequests(qres, qexp, reqs); k2 == "" {
					key = "not-generated:type-filter-leaked"
					msg = fmt.Sprintf("the requests sent to %s (types=%v exclude_types=%v) are built from the image filtered for entry %s (types=%v exclude_types=%v); against its own image: %s", p.Opt, p.Types, p.ExcludeTypes, q.Opt, q.Types, q.ExcludeTypes, msg)
					break
				}
			}
			r.Fail(t, key, fmt.Sprintf("%s (plugin entry %s, version %s): %s", cmd, p.Opt, c.Version, msg), c)
			return
		}
		classifyL1(r, "l2", exp.strategy, exp.includeImports, exp.includeWKT, views, stats, c.Src.canon()+fmt.Sprint(c.Paths, p.Opt))
		if exp.strategy == "directory" && exp.includeImports && stats["directories-share-non-wkt-import"] > 0 {
			nontrivialL1 = true
		}
	}

	// --- outputs
	exp := c.expected(area, caseDir, firsts)
	if filterFailed && exp.err == "" {
		exp.err, exp.errKey = "a per-plugin type filter cannot be applied to the image", "type-filter-error-ignored"
	}
	var created, changed []string
	for p, v := range after {
		old, ok := before[p]
		switch {
		case !ok && v != "<dir>":
			created = append(created, p)
		case ok && old != v:
			changed = append(changed, p)
		}
	}
	sort.Strings(created)
	sort.Strings(changed)
	touched := append(append([]string{}, created...), changed...)
	outs := map[string]bool{}
	for _, p := range c.Plugins {
		outs[c.absOut(area, caseDir, p)] = true
	}
	beneathAnOut := func(p string) bool {
		for o := range outs {
			if p == o && isArchive(o) {
				return true
			}
			if !isArchive(o) && strings.HasPrefix(p, o+string(filepath.Separator)) {
				return true
			}
		}
		return false
	}
	rel := func(ps []string) []string {
		out := make([]string, len(ps))
		for i, p := range ps {
			out[i], _ = filepath.Rel(caseDir, p)
		}
		return out
	}
	c.classifyL2(r, exp, nontrivialL1)
	for _, p := range touched {
		if !beneathAnOut(p) {
			r.Fail(t, "escape-write", fmt.Sprintf("%s (exit %d): wrote %v, which is not beneath any plugin's out %v; expected outcome: %s", cmd, code, rel([]string{p}), rel(protogen.SortedKeys(outs)), orOK(exp.err)), c)
			return
		}
	}
	if exp.err != "" {
		if code == 0 {
			r.Fail(t, exp.errKey, fmt.Sprintf("%s: exit 0 although %s; files written: %v", cmd, exp.err, rel(touched)), c)
			return
		}
		if len(touched) > 0 {
			r.Fail(t, "partial-output-on-error", fmt.Sprintf("%s: exit %d (%s) but files of this run were written: %v (stderr: %s)", cmd, code, exp.err, rel(touched), firstLines(stderr, 3)), c)
			return
		}
		return
	}
	archiveParentMissing := false
	for o := range outs {
		if isArchive(o) {
			if _, ok := before[filepath.Dir(o)]; !ok {
				archiveParentMissing = true
			}
		}
	}
	if archiveParentMissing {
		// an archive out whose directory does not exist yet: whether the directory is created is not part
		// of the statement (observed: the first run fails after creating it). Only containment and
		// "nothing written on error" are asserted.
		r.Class("l2:archive-out-directory-missing")
		if code != 0 {
			r.Class("l2:archive-out-directory-missing:run-failed")
			if len(touched) > 0 {
				r.Fail(t, "partial-output-on-error", fmt.Sprintf("%s: exit %d but files of this run were written: %v", cmd, code, rel(touched)), c)
			}
			return
		}
	}
	if code != 0 {
		r.Fail(t, "benign-run-failed", fmt.Sprintf("%s: exit %d, but every plugin response is well-formed: %s", cmd, code, firstLines(stderr, 4)), c)
		return
	}
	// exact content
	want := map[string]string{}
	for _, abs := range exp.order {
		if isArchive(abs) {
			got, ok := after[abs]
			if !ok {
				r.Fail(t, "output-missing", fmt.Sprintf("%s: exit 0 but %s was not written", cmd, rel([]string{abs})), c)
				return
			}
			entries, err := readZip(got)
			if err != nil {
				r.Fail(t, "output-content", fmt.Sprintf("%s: %s is not a readable archive: %v", cmd, rel([]string{abs}), err), c)
				return
			}
			for name, content := range exp.buckets[abs] {
				g, ok := entries[name]
				if !ok || !sameText(g, content, exp.inserts[abs+"\x00"+name]) {
					r.Fail(t, "output-content", fmt.Sprintf("%s: archive %s entry %s = %q (present=%v), scripted %q", cmd, rel([]string{abs}), name, g, ok, content), c)
					return
				}
			}
			if len(entries) != len(exp.buckets[abs]) {
				r.Fail(t, "output-content", fmt.Sprintf("%s: archive %s has entries %v, scripted %v", cmd, rel([]string{abs}), keysOf(entries), keysOf(exp.buckets[abs])), c)
				return
			}
			want[abs] = got
			continue
		}
		for name, content := range exp.buckets[abs] {
			p := filepath.Join(abs, filepath.FromSlash(name))
			g, ok := after[p]
			if !ok || g == "<dir>" || !sameText(g, content, exp.inserts[abs+"\x00"+name]) {
				r.Fail(t, "output-content", fmt.Sprintf("%s: %s = %q (present=%v), scripted %q", cmd, rel([]string{p}), g, ok, content), c)
				return
			}
			want[p] = g
		}
	}
	for _, p := range touched {
		if _, ok := want[p]; !ok {
			r.Fail(t, "output-unexpected", fmt.Sprintf("%s: wrote %v which no plugin response names (expected %v)", cmd, rel([]string{p}), rel(keysOf(want))), c)
			return
		}
	}
}

func runCLI(ctx context.Context, env map[string]string, args ...string) (int, string, string) {
	return bufcli.Run(ctx, env, "", args...)
}

// outKey identifies an out location independent of its spelling.
func outKey(out string) string {
	out = strings.TrimPrefix(out, absToken+"/area/")
	return path.Clean(out)
}

func orOK(s string) string {
	if s == "" {
		return "success"
	}
	return "error: " + s
}

func keysOf(m map[string]string) []string {
	out := make([]string, 0, len(m))
	for k := range m {
		out = append(out, k)
	}
	sort.Strings(out)
	return out
}

func firstLines(s string, n int) string {
	lines := strings.SplitN(s, "\n", n+1)
	if len(lines) > n {
		lines = lines[:n]
	}
	return strings.Join(lines, "\n")
}

func (c *GenCase) classifyL2(r *evid.Recorder, exp *model, nontrivialL1 bool) {
	r.Class("l2:version:" + c.Version)
	r.Class(fmt.Sprintf("l2:plugins-%d", len(c.Plugins)))
	if exp.err == "" {
		r.Class("l2:expected:success")
	} else {
		r.Class("l2:expected:error:" + exp.errKey)
	}
	hostile, insertion, continuation := false, false, false
	outs := map[string]int{}
	for _, p := range c.Plugins {
		outs[p.Out]++
		switch filepath.Ext(p.Out) {
		case ".zip":
			r.Class("l2:out:zip")
		case ".jar":
			r.Class("l2:out:jar")
		default:
			r.Class("l2:out:dir")
		}
		if strings.HasPrefix(p.Out, absToken) {
			r.Class("l2:out:absolute-spelling")
		}
		if p.PerRequest {
			r.Class("l2:per-request-names")
		}
		for i, f := range p.Files {
			if _, ok := cleanName(strings.ReplaceAll(f.Name, absToken, "/abs")); !ok && !(f.Name == "" && i > 0 && f.InsertionPoint == "") {
				hostile = true
			}
			if f.Name == "" && i > 0 {
				continuation = true
			}
			if f.InsertionPoint != "" {
				insertion = true
			}
		}
	}
	for _, n := range outs {
		if n >= 2 {
			r.Class("l2:shared-out")
		}
	}
	archDirs := map[string]map[string]bool{}
	for _, p := range c.Plugins {
		k := outKey(p.Out)
		if isArchive(k) {
			if archDirs[path.Dir(k)] == nil {
				archDirs[path.Dir(k)] = map[string]bool{}
			}
			archDirs[path.Dir(k)][k] = true
		}
	}
	for d, as := range archDirs {
		if len(as) >= 2 {
			r.Class("l2:several-archives-in-one-directory")
		}
		for _, p := range c.Plugins {
			if !isArchive(outKey(p.Out)) && outKey(p.Out) == d {
				r.Class("l2:archive-inside-another-plugins-out-directory")
			}
		}
	}
	for o, n := range outs {
		if n >= 2 && isArchive(o) {
			r.Class("l2:archive-shared-by-two-plugins")
		}
	}
	if hostile {
		r.Class("l2:hostile-name")
	}
	if insertion {
		r.Class("l2:insertion-point")
	}
	if continuation {
		r.Class("l2:nameless-continuation")
	}
	if len(c.Paths) > 0 {
		r.Class("l2:--path")
	}
	if c.FlagImports != "" {
		r.Class("l2:--include-imports=" + c.FlagImports)
	}
	if c.FlagWKT != "" {
		r.Class("l2:--include-wkt=" + c.FlagWKT)
	}
	if c.BaseOut != "" {
		r.Class("l2:-o")
	}
	if hostile || insertion || nontrivialL1 {
		pj, _ := json.Marshal(c.Plugins)
		r.NonTrivial(fmt.Sprintf("l2|%s|%s|%v|%s%s|%s", c.Src.canon(), pj, c.Paths, c.FlagImports, c.FlagWKT, c.BaseOut))
		r.Sample(map[string]any{"kind": "l2", "version": c.Version, "plugins": c.Plugins, "paths": c.Paths, "flags": []string{c.FlagImports, c.FlagWKT, c.BaseOut}, "expected": orOK(exp.err)})
	}
}

// ---------------------------------------------------------------------------------------------
// generation

var benignNames = []string{"a.txt", "pkg/b.go", "deep/er/c.pb", "x..y", "..z", "w..", ".hidden", "sp ace.txt", "ü.txt", "m/./n1.txt", "m//n2.txt", "./n3.txt", "q/../n4.txt", "back\\slash.txt", "...", "d/...", "very/deep/dir/tree/leaf.txt"}

var hostileNames = []string{"../up.txt", "../../up2.txt", "a/../../up3.txt", absToken + "/abs-escape/x.txt", "..", "a/../..", "", "/", "../", "x/../../area-side.txt", "./../dot-up.txt", "a/b/../../../up4.txt", outsideProbe}

func genScript(t *rapid.T, p *Plugin, mode string, earlier []Plugin) {
	n := rapid.IntRange(1, 4).Draw(t, "nfiles")
	used := map[string]bool{}
	suffix := ""
	if p.PerRequest {
		suffix = ".{first}"
	}
	for i := 0; i < n; i++ {
		name := benignNames[rapid.IntRange(0, len(benignNames)-1).Draw(t, "name")]
		cn, _ := cleanName(name)
		// prefix-free by construction: a name is used once per plugin and never as a directory of another
		conflict := false
		for u := range used {
			if u == cn || strings.HasPrefix(u, cn+"/") || strings.HasPrefix(cn, u+"/") {
				conflict = true
			}
		}
		if conflict {
			continue
		}
		used[cn] = true
		content := fmt.Sprintf("// %s by %s\n", cn, p.Opt)
		if rapid.IntRange(0, 2).Draw(t, "marker") == 0 {
			content += "  // @@protoc_insertion_point(scope)\nend\n"
		}
		if p.PerRequest {
			content += "for {first}\n"
		}
		p.Files = append(p.Files, ScriptFile{Name: name + suffix, Content: content})
	}
	if len(p.Files) == 0 {
		p.Files = append(p.Files, ScriptFile{Name: "only.txt" + suffix, Content: "only\n"})
	}
	switch mode {
	case "hostile":
		h := hostileNames[rapid.IntRange(0, len(hostileNames)-1).Draw(t, "hostile")]
		at := rapid.IntRange(0, len(p.Files)).Draw(t, "hostile-at")
		f := ScriptFile{Name: h, Content: "escaped\n"}
		if h == "" && at > 0 && rapid.Bool().Draw(t, "nameless-with-insertion") {
			f.InsertionPoint = "scope"
		}
		p.Files = append(p.Files[:at], append([]ScriptFile{f}, p.Files[at:]...)...)
	case "insertion":
		// a target: own file / a file of an earlier plugin (same or another out) / a file nobody produces / a pre-existing file
		kind := rapid.IntRange(0, 5).Draw(t, "ins-kind")
		target := ""
		switch {
		case kind <= 1:
			target = p.Files[rapid.IntRange(0, len(p.Files)-1).Draw(t, "ins-own")].Name
		case kind == 2 && len(earlier) > 0:
			e := earlier[rapid.IntRange(0, len(earlier)-1).Draw(t, "ins-earlier")]
			if len(e.Files) > 0 && !e.PerRequest && !p.PerRequest {
				target = e.Files[rapid.IntRange(0, len(e.Files)-1).Draw(t, "ins-earlier-file")].Name
			}
		case kind == 3:
			target = "nobody/made.this"
		case kind == 4:
			target = "existing.txt"
		}
		if target == "" {
			target = p.Files[0].Name
		}
		point := []string{"scope", "scope", "other"}[rapid.IntRange(0, 2).Draw(t, "ins-point")]
		at := len(p.Files)
		if rapid.IntRange(0, 4).Draw(t, "ins-before") == 0 {
			at = 0 // before the file exists
		}
		f := ScriptFile{Name: target, Content: "inserted by " + p.Opt + "\nsecond line\n", InsertionPoint: point}
		p.Files = append(p.Files[:at], append([]ScriptFile{f}, p.Files[at:]...)...)
	case "duplicate":
		if len(earlier) > 0 {
			e := earlier[rapid.IntRange(0, len(earlier)-1).Draw(t, "dup-of")]
			if len(e.Files) > 0 && !e.PerRequest && !p.PerRequest {
				f := e.Files[rapid.IntRange(0, len(e.Files)-1).Draw(t, "dup-file")]
				if f.InsertionPoint == "" && f.Name != "" {
					if rapid.Bool().Draw(t, "dup-share-out") {
						p.Out = e.Out
					}
					spell := []string{"%s", "./%s", "x/../%s"}[rapid.IntRange(0, 2).Draw(t, "dup-spelling")]
					p.Files = append(p.Files, ScriptFile{Name: fmt.Sprintf(spell, f.Name), Content: "duplicate by " + p.Opt + "\n"})
				}
			}
		} else if len(p.Files) > 0 {
			// the same plugin twice: first one wins, not an error
			p.Files = append(p.Files, ScriptFile{Name: p.Files[0].Name, Content: "again\n"})
		}
	case "continuation":
		at := rapid.IntRange(1, len(p.Files)).Draw(t, "cont-at")
		p.Files = append(p.Files[:at], append([]ScriptFile{{Name: "", Content: "continued\n"}}, p.Files[at:]...)...)
	case "plugin-error":
		p.Error = "scripted failure of " + p.Opt
	}
}

func messageNames(c *GenCase) []string {
	var out []string
	for _, m := range c.Src.Mods {
		for _, p := range protogen.SortedPaths(c.Src.Files[m.Dir]) {
			if len(c.Paths) > 0 {
				// types of targeted files (a filter naming a type outside the image is the documented error)
				in := false
				for _, tp := range c.Paths {
					in = in || dirOf(p) == tp || strings.HasPrefix(p, tp+"/")
				}
				if !in && evidRare(p) {
					continue
				}
			}
			txt := c.Src.Files[m.Dir][p]
			pkg := ""
			for _, line := range strings.Split(txt, "\n") {
				if strings.HasPrefix(line, "package ") {
					pkg = strings.TrimSuffix(strings.TrimPrefix(line, "package "), ";")
				}
				if strings.HasPrefix(line, "message ") && pkg != "" && pkg != "options.v1" {
					out = append(out, pkg+"."+strings.Fields(line)[1])
				}
			}
		}
	}
	return out
}

// evidRare keeps one in eight non-targeted files as a source of type names (deterministic per path).
func evidRare(p string) bool { return evidHash(p)%8 != 0 }

func genL2(t *rapid.T) *GenCase {
	c := &GenCase{Kind: "l2", Src: genSrc(t, false)}
	c.Version = []string{"v2", "v2", "v2", "v1"}[rapid.IntRange(0, 3).Draw(t, "version")]
	// out values: directories (nested ones, several spellings of one) and .zip/.jar archives - at the
	// root of the working directory (several in one directory), inside another plugin's out directory
	// (gen/, out2/), in a directory that does not exist yet (arch/)
	dirOuts := []string{"gen", "gen/go", "out2", "deep/a/b", "./gen", "gen/", "gen", "out2", "gen/go/sub", absToken + "/area/gen"}
	archiveOuts := []string{"gen.zip", "lib.jar", "pkg.zip", "api.jar", "gen/bundle.jar", "gen/other.zip", "gen/go/inner.zip", "out2/a.jar", "arch/sub.zip"}
	archiveBias := rapid.IntRange(0, 3).Draw(t, "archive-bias") == 0 // a case where most outs are archives
	drawOut := func() string {
		arch := rapid.IntRange(0, 9).Draw(t, "out-kind")
		if (archiveBias && arch < 8) || (!archiveBias && arch < 3) {
			return archiveOuts[rapid.IntRange(0, len(archiveOuts)-1).Draw(t, "out-archive")]
		}
		return dirOuts[rapid.IntRange(0, len(dirOuts)-1).Draw(t, "out-dir")]
	}
	n := rapid.IntRange(1, 4).Draw(t, "nplugins")
	c.Existing = map[string]string{"gen/existing.txt": "old\n// @@protoc_insertion_point(scope)\n", "out2/existing.txt": "old\n// @@protoc_insertion_point(scope)\n", "unrelated/keep.txt": "keep\n", "gen/go/keep.txt": "keep\n", "base/keep.txt": "keep\n", "base/deeper/keep.txt": "keep\n"}
	paths := c.Src.allPaths()
	if rapid.IntRange(0, 2).Draw(t, "use-path") != 0 && len(paths) > 1 {
		// only some directories are targets: the rest of the workspace is import-only
		dirs := map[string]bool{}
		for _, p := range paths {
			dirs[dirOf(p)] = true
		}
		ds := protogen.SortedKeys(dirs)
		k := rapid.IntRange(1, len(ds)).Draw(t, "npaths")
		perm := rapid.Permutation(ds).Draw(t, "pathperm")
		c.Paths = append([]string{}, perm[:k]...)
		sort.Strings(c.Paths)
		if k == len(ds) {
			c.Paths = nil
		}
	}
	switch rapid.IntRange(0, 5).Draw(t, "flags") {
	case 0:
		c.FlagImports = "true"
	case 1:
		c.FlagImports, c.FlagWKT = "true", "true"
	case 2:
		c.FlagImports = "false"
	}
	if rapid.IntRange(0, 4).Draw(t, "baseout") == 0 {
		c.BaseOut = []string{"base", "base/deeper"}[rapid.IntRange(0, 1).Draw(t, "baseout-v")]
	}
	if rapid.IntRange(0, 3).Draw(t, "template") == 0 {
		c.Template = "flag"
	}
	msgs := messageNames(c)
	mode := []string{"benign", "benign", "hostile", "hostile", "insertion", "insertion", "duplicate", "continuation", "plugin-error"}[rapid.IntRange(0, 8).Draw(t, "mode")]
	special := rapid.IntRange(0, n-1).Draw(t, "special-plugin")
	for i := 0; i < n; i++ {
		p := Plugin{Opt: fmt.Sprintf("p%d", i)}
		p.Out = drawOut()
		if i > 0 && rapid.IntRange(0, 2).Draw(t, "share-out") == 0 {
			p.Out = c.Plugins[rapid.IntRange(0, i-1).Draw(t, "share-with")].Out
		}
		p.Strategy = []string{"", "directory", "all"}[rapid.IntRange(0, 2).Draw(t, "strategy")]
		if c.Version == "v2" {
			p.IncludeImports = rapid.Bool().Draw(t, "include-imports")
			p.IncludeWKT = p.IncludeImports && rapid.Bool().Draw(t, "include-wkt")
			if len(msgs) > 0 && rapid.IntRange(0, 4).Draw(t, "types") == 0 {
				p.Types = []string{msgs[rapid.IntRange(0, len(msgs)-1).Draw(t, "type")]}
			}
			if len(msgs) > 1 && rapid.IntRange(0, 5).Draw(t, "exclude-types") == 0 {
				x := msgs[rapid.IntRange(0, len(msgs)-1).Draw(t, "xtype")]
				if len(p.Types) == 0 || p.Types[0] != x {
					p.ExcludeTypes = []string{x}
				}
			}
		}
		p.PerRequest = rapid.IntRange(0, 3).Draw(t, "per-request") == 0
		m := "benign"
		if i == special {
			m = mode
		}
		genScript(t, &p, m, c.Plugins)
		c.Plugins = append(c.Plugins, p)
	}
	// names of one out must be prefix-free across plugins too (a file cannot also be a directory);
	// identical names are the duplicate scenario and stay
	type nm struct{ out, name string }
	var all []nm
	for i := range c.Plugins {
		p := &c.Plugins[i]
		var keep []ScriptFile
		for _, f := range p.Files {
			cn, ok := cleanName(f.Name)
			bad := false
			if ok && f.InsertionPoint == "" {
				for _, o := range all {
					if o.out == outKey(p.Out) && (strings.HasPrefix(o.name, cn+"/") || strings.HasPrefix(cn, o.name+"/")) {
						bad = true
					}
				}
				// nor collide with a pre-existing file or directory of the area
				for e := range c.Existing {
					full := path.Join(outKey(p.Out), cn)
					if full == e || strings.HasPrefix(e, full+"/") || strings.HasPrefix(full, e+"/") {
						bad = true
					}
				}
			}
			if bad {
				continue
			}
			if ok && f.InsertionPoint == "" {
				all = append(all, nm{outKey(p.Out), cn})
			}
			keep = append(keep, f)
		}
		p.Files = keep
	}
	// Open known finding duplicate-path-accepted:abs-vs-relative-out: the same directory reached through
	// two spellings of `out` (one absolute) with both plugins producing the same file. The random search
	// does not dwell on it (TestKnownFindings runs the directed case every time): respell relative, which
	// turns the case into the plain duplicate that must be an error.
	for i := range c.Plugins {
		if !strings.HasPrefix(c.Plugins[i].Out, absToken) {
			continue
		}
		clash := false
		for j := range c.Plugins {
			if i == j || outKey(c.Plugins[j].Out) != outKey(c.Plugins[i].Out) || strings.HasPrefix(c.Plugins[j].Out, absToken) {
				continue
			}
			for _, a := range c.Plugins[i].Files {
				for _, b := range c.Plugins[j].Files {
					ca, oka := cleanName(a.Name)
					cb, okb := cleanName(b.Name)
					if oka && okb && ca == cb && a.InsertionPoint == "" && b.InsertionPoint == "" {
						clash = true
					}
				}
			}
		}
		if clash {
			evid.R().Excluded(knownAbsVsRel)
			c.Plugins[i].Out = outKey(c.Plugins[i].Out)
		}
	}
	// Open known finding duplicate-path-accepted:after-own-insertion-point: a response that lists an
	// insertion-point entry for a name BEFORE a plain file of the same name, where an earlier plugin
	// produces that name into the same out. The directed case runs every time; here the plain file is dropped.
	for i := range c.Plugins {
		p := &c.Plugins[i]
		var keep []ScriptFile
		claimed := map[string]bool{}
		for _, f := range p.Files {
			cn, ok := cleanName(f.Name)
			if ok && f.InsertionPoint != "" {
				claimed[cn] = true
			}
			if ok && f.InsertionPoint == "" && claimed[cn] {
				earlier := false
				for j := 0; j < i; j++ {
					if outKey(c.Plugins[j].Out) != outKey(p.Out) {
						continue
					}
					for _, g := range c.Plugins[j].Files {
						if gn, gok := cleanName(g.Name); gok && gn == cn && g.InsertionPoint == "" {
							earlier = true
						}
					}
				}
				if earlier {
					evid.R().Excluded(knownAfterOwnInsertion)
					continue
				}
			}
			keep = append(keep, f)
		}
		p.Files = keep
	}
	return c
}

const knownAfterOwnInsertion = "duplicate-path-accepted:after-own-insertion-point"

const knownAbsVsRel = "duplicate-path-accepted:abs-vs-relative-out"

// TestKnownFindings runs one minimal directed case per listed open finding, so that a finding that is
// still present is reported on every run and silently stops being reported once repaired.
func TestKnownFindings(t *testing.T) {
	r := evid.R()
	defer r.Begin(t)()
	if !r.Mine(0) {
		return
	}
	c := &GenCase{
		Kind:    "l2",
		Version: "v2",
		Src: Src{
			Mods:  []Mod{{Dir: "mod0"}},
			Files: map[string]map[string]string{"mod0": {"a/v1/a.proto": "syntax = \"proto3\";\npackage a.v1;\nmessage A {\n  string x = 1;\n}\n"}},
		},
		Plugins: []Plugin{
			{Opt: "p0", Out: absToken + "/area/gen", Strategy: "all", Files: []ScriptFile{{Name: "x.txt", Content: "one\n"}}},
			{Opt: "p1", Out: "gen", Strategy: "all", Files: []ScriptFile{{Name: "x.txt", Content: "two\n"}}},
		},
	}
	r.Class("directed-known-finding-regression")
	runL2(context.Background(), t, r, c)
	// duplicate-path-accepted:after-own-insertion-point
	c2 := &GenCase{
		Kind:    "l2",
		Version: "v2",
		Src:     c.Src,
		Plugins: []Plugin{
			{Opt: "p0", Out: "gen", Strategy: "all", Files: []ScriptFile{{Name: "f.txt", Content: "p0 version\n// @@protoc_insertion_point(scope)\n"}}},
			{Opt: "p1", Out: "gen", Strategy: "all", Files: []ScriptFile{
				{Name: "f.txt", Content: "by p1\n", InsertionPoint: "scope"},
				{Name: "f.txt", Content: "p1 version\n"},
			}},
		},
	}
	r.Class("directed-known-finding-regression")
	runL2(context.Background(), t, r, c2)
}

func TestGenerate(t *testing.T) {
	r := evid.R()
	ctx := context.Background()
	r.Check(t, r.Scale(100, 3200), 2, func(t *rapid.T) {
		runL2(ctx, t, r, genL2(t))
	})
}
