package c17

import (
	"testing"

	"github.com/bufbuild/bufverif/internal/evid"
)

func TestMain(m *testing.M) { evid.Main(m, "C17") }
