// C17 — each file is generated exactly once and plugin output stays in its directory.
//
// Level 1 (requests_test.go): images from generated workspaces -> bufimage.ImageByDir +
// ImagesToCodeGeneratorRequests / ImageToCodeGeneratorRequest, checked against the documented
// behaviour: the multiset of file_to_generate over all requests of one plugin, closure and
// dependency order of proto_file, source_file_descriptors = untouched descriptors, proto_file
// entries of generated files = descriptors minus source-retention options (reference stripper
// written here), everything else untouched.
//
// Level 2 (generate_test.go): `buf generate` in-process with cmd/protoc-gen-verifrec, which records
// the requests it receives and answers with scripted responses (benign / hostile names, insertion
// points, duplicates, nameless continuation files, plugin errors). The recorded requests must
// satisfy Level 1; the files that exist after the run are compared with a reference model of the
// documented response handling (nothing outside a plugin's out, nothing at all on error, exact
// content on success).
package c17

import (
	"context"
	"testing"

	"github.com/bufbuild/bufverif/internal/evid"
)

func TestMain(m *testing.M) { evid.Main(m, "C17") }

// TestReplay re-runs the oracle on a saved case: rendered sources, plugin configuration, flags and
// scripted responses are all part of the case.
func TestReplay(t *testing.T) {
	var kind struct {
		Kind string `json:"kind"`
	}
	ok, err := evid.ReplayCase(&kind)
	if !ok {
		t.Skip("no VERIF_REPLAY")
	}
	if err != nil {
		t.Fatal(err)
	}
	r := evid.R()
	defer r.Begin(t)()
	ctx := context.Background()
	switch kind.Kind {
	case "l1":
		var c ReqCase
		if _, err := evid.ReplayCase(&c); err != nil {
			t.Fatal(err)
		}
		runL1(ctx, t, r, &c)
	case "l2":
		var c GenCase
		if _, err := evid.ReplayCase(&c); err != nil {
			t.Fatal(err)
		}
		runL2(ctx, t, r, &c)
	default:
		t.Fatalf("harness: unknown case kind %q", kind.Kind)
	}
}
