package c17

// Level 1: the CodeGeneratorRequests built from an image.

import (
	"context"
	"fmt"
	"sort"
	"strings"
	"testing"

	"github.com/bufbuild/buf/private/bufpkg/bufimage"
	"github.com/bufbuild/buf/private/gen/data/datawkt"
	"github.com/bufbuild/bufverif/internal/bufx"
	"github.com/bufbuild/bufverif/internal/evid"
	"github.com/bufbuild/bufverif/internal/protogen"
	"google.golang.org/protobuf/proto"
	"google.golang.org/protobuf/reflect/protoreflect"
	"google.golang.org/protobuf/types/descriptorpb"
	"google.golang.org/protobuf/types/pluginpb"
	"pgregory.net/rapid"
)

// ReqCase is the replayable input of one Level-1 evaluation.
type ReqCase struct {
	Kind           string   `json:"kind"` // l1
	Src            Src      `json:"src"`
	NonTarget      []string `json:"non_target_modules,omitempty"`
	Paths          []string `json:"target_paths,omitempty"` // directories (image-root relative) that are targeted; empty = everything
	Strategy       string   `json:"strategy"` // directory | all
	IncludeImports bool     `json:"include_imports"`
	IncludeWKT     bool     `json:"include_wkt"`
	Param          string   `json:"parameter"`
	Version        bool     `json:"compiler_version"`
}

// expectation is what the documentation promises about the requests sent to one plugin.
type expectation struct {
	strategy       string
	includeImports bool
	includeWKT     bool
	param          string
	files          []fileView // the image the requests are derived from, in image order
	// partial: the run was aborted (a failing plugin cancels the invocations still in flight), so the
	// recorded requests may be a subset; only per-request properties and "at most once" are checked
	partial bool
}

func isWKT(path string) bool { return datawkt.Exists(path) }

func dirOf(path string) string {
	if i := strings.LastIndex(path, "/"); i >= 0 {
		return path[:i]
	}
	return "."
}

// ---------------------------------------------------------------------------------------------
// reference: removal of source-retention options (options whose option field is declared with
// retention = RETENTION_SOURCE), written against descriptor.proto's documentation

type stripper struct {
	removed [][]int32 // source paths (prefixes) of removed options
	any     bool
}

func (s *stripper) options(m protoreflect.Message, field protoreflect.FieldNumber, path []int32) {
	fd := m.Descriptor().Fields().ByNumber(field)
	if fd == nil || !m.Has(fd) {
		return
	}
	opts := m.Get(fd).Message()
	var drop []protoreflect.FieldDescriptor
	keep := 0
	opts.Range(func(ofd protoreflect.FieldDescriptor, _ protoreflect.Value) bool {
		if fo, ok := ofd.Options().(*descriptorpb.FieldOptions); ok && fo.GetRetention() == descriptorpb.FieldOptions_RETENTION_SOURCE {
			drop = append(drop, ofd)
		} else {
			keep++
		}
		return true
	})
	if len(drop) == 0 {
		return
	}
	s.any = true
	opath := append(append([]int32{}, path...), int32(field))
	if keep == 0 && len(opts.GetUnknown()) == 0 {
		m.Clear(fd)
		s.removed = append(s.removed, opath)
		return
	}
	mut := m.Mutable(fd).Message()
	for _, ofd := range drop {
		mut.Clear(ofd)
		s.removed = append(s.removed, append(append([]int32{}, opath...), int32(ofd.Number())))
	}
}

func (s *stripper) list(m protoreflect.Message, field protoreflect.FieldNumber, path []int32, each func(protoreflect.Message, []int32)) {
	fd := m.Descriptor().Fields().ByNumber(field)
	if fd == nil {
		return
	}
	l := m.Get(fd).List()
	for i := 0; i < l.Len(); i++ {
		each(l.Get(i).Message(), append(append([]int32{}, path...), int32(field), int32(i)))
	}
}

func (s *stripper) field(m protoreflect.Message, path []int32) { s.options(m, 8, path) }

func (s *stripper) enum(m protoreflect.Message, path []int32) {
	s.options(m, 3, path)
	s.list(m, 2, path, func(v protoreflect.Message, p []int32) { s.options(v, 3, p) })
}

func (s *stripper) message(m protoreflect.Message, path []int32) {
	s.options(m, 7, path)
	s.list(m, 2, path, s.field)
	s.list(m, 6, path, s.field)
	s.list(m, 3, path, s.message)
	s.list(m, 4, path, s.enum)
	s.list(m, 8, path, func(o protoreflect.Message, p []int32) { s.options(o, 2, p) })
	s.list(m, 5, path, func(r protoreflect.Message, p []int32) { s.options(r, 3, p) })
}

func (s *stripper) file(m protoreflect.Message) {
	s.options(m, 8, nil)
	s.list(m, 4, nil, s.message)
	s.list(m, 5, nil, s.enum)
	s.list(m, 7, nil, s.field)
	s.list(m, 6, nil, func(svc protoreflect.Message, p []int32) {
		s.options(svc, 3, p)
		s.list(svc, 2, p, func(mt protoreflect.Message, q []int32) { s.options(mt, 4, q) })
	})
}

func hasPrefix(path, prefix []int32) bool {
	if len(prefix) > len(path) {
		return false
	}
	for i := range prefix {
		if path[i] != prefix[i] {
			return false
		}
	}
	return true
}

// refStrip returns the runtime view of a (normalised) descriptor and whether anything was removed.
func refStrip(norm *descriptorpb.FileDescriptorProto) (*descriptorpb.FileDescriptorProto, bool) {
	out := proto.Clone(norm).(*descriptorpb.FileDescriptorProto)
	s := &stripper{}
	s.file(out.ProtoReflect())
	if s.any && out.SourceCodeInfo != nil {
		var locs []*descriptorpb.SourceCodeInfo_Location
		for _, l := range out.SourceCodeInfo.Location {
			gone := false
			for _, r := range s.removed {
				if hasPrefix(l.Path, r) {
					gone = true
				}
			}
			if !gone {
				locs = append(locs, l)
			}
		}
		out.SourceCodeInfo.Location = locs
	}
	return out, s.any
}

// dropEmptyOptions clears options messages that are set but empty: "no options" and "an empty
// options message" are the same runtime view.
func dropEmptyOptions(m protoreflect.Message) {
	m.Range(func(fd protoreflect.FieldDescriptor, v protoreflect.Value) bool {
		switch {
		case fd.IsMap():
		case fd.IsList() && fd.Message() != nil:
			l := v.List()
			for i := 0; i < l.Len(); i++ {
				dropEmptyOptions(l.Get(i).Message())
			}
		case fd.Message() != nil:
			sub := v.Message()
			if fd.Name() == "options" && proto.Size(sub.Interface()) == 0 {
				m.Clear(fd)
			} else {
				dropEmptyOptions(sub)
			}
		}
		return true
	})
}

// sameModuloOptions reports whether two descriptors differ in options / source info only.
func sameModuloOptions(a, b proto.Message) bool {
	x, y := proto.Clone(a), proto.Clone(b)
	var clear func(m protoreflect.Message)
	clear = func(m protoreflect.Message) {
		m.Range(func(fd protoreflect.FieldDescriptor, v protoreflect.Value) bool {
			switch {
			case fd.Name() == "options" || fd.Name() == "source_code_info":
				m.Clear(fd)
			case fd.IsMap():
			case fd.IsList() && fd.Message() != nil:
				l := v.List()
				for i := 0; i < l.Len(); i++ {
					clear(l.Get(i).Message())
				}
			case fd.Message() != nil:
				clear(v.Message())
			}
			return true
		})
	}
	clear(x.ProtoReflect())
	clear(y.ProtoReflect())
	return proto.Equal(x, y)
}

// ---------------------------------------------------------------------------------------------
// the oracle

// checkRequests checks all requests sent to ONE plugin against the documented behaviour.
func checkRequests(res *refResolver, exp expectation, reqs []*pluginpb.CodeGeneratorRequest) (key, msg string, stats map[string]int) {
	stats = map[string]int{}
	by := map[string]fileView{}
	pos := map[string]int{}
	for i, f := range exp.files {
		by[f.Path] = f
		pos[f.Path] = i
	}
	// expected multiset of files to generate
	want := map[string]bool{}
	targetDirs := map[string]bool{}
	for _, f := range exp.files {
		switch {
		case !f.IsImport:
			want[f.Path] = true
			targetDirs[dirOf(f.Path)] = true
		case exp.includeImports && !isWKT(f.Path):
			want[f.Path] = true
		case exp.includeImports && exp.includeWKT && isWKT(f.Path):
			want[f.Path] = true
		}
	}
	switch {
	case exp.partial:
	case exp.strategy == "all":
		if len(reqs) != 1 {
			return "request-count", fmt.Sprintf("strategy all: %d requests, expected 1", len(reqs)), stats
		}
	case exp.strategy == "directory":
		if len(reqs) != len(targetDirs) {
			return "request-count", fmt.Sprintf("strategy directory: %d requests for %d directories with target files %v", len(reqs), len(targetDirs), protogen.SortedKeys(targetDirs)), stats
		}
	}
	gen := map[string]int{}
	seenDir := map[string]int{}
	var perReqDirs []map[string]bool
	for ri, req := range reqs {
		at := fmt.Sprintf("request %d/%d", ri+1, len(reqs))
		if req.GetParameter() != exp.param {
			return "parameter", fmt.Sprintf("%s: parameter %q, configured %q", at, req.GetParameter(), exp.param), stats
		}
		inReq := map[string]int{}
		for i, pf := range req.GetProtoFile() {
			if _, dup := inReq[pf.GetName()]; dup {
				return "request-duplicate-proto-file", fmt.Sprintf("%s: proto_file lists %s twice", at, pf.GetName()), stats
			}
			inReq[pf.GetName()] = i
			if _, ok := by[pf.GetName()]; !ok {
				return "request-foreign-file", fmt.Sprintf("%s: proto_file %s is not a file of the image", at, pf.GetName()), stats
			}
		}
		for i, pf := range req.GetProtoFile() {
			for _, d := range pf.GetDependency() {
				j, ok := inReq[d]
				if !ok {
					return "request-not-closed", fmt.Sprintf("%s: proto_file has %s but not its dependency %s", at, pf.GetName(), d), stats
				}
				if j >= i {
					return "request-order", fmt.Sprintf("%s: %s (index %d) comes before its dependency %s (index %d)", at, pf.GetName(), i, d, j), stats
				}
			}
		}
		isGen := map[string]bool{}
		dirsHere := map[string]bool{}
		for _, p := range req.GetFileToGenerate() {
			if isGen[p] {
				return "generated-twice", fmt.Sprintf("%s: file_to_generate lists %s twice", at, p), stats
			}
			isGen[p] = true
			gen[p]++
			if _, ok := inReq[p]; !ok {
				return "request-not-closed", fmt.Sprintf("%s: file_to_generate %s is not among proto_file", at, p), stats
			}
			if f, ok := by[p]; ok && !f.IsImport {
				dirsHere[dirOf(p)] = true
			}
		}
		perReqDirs = append(perReqDirs, dirsHere)
		// source_file_descriptors: the unstripped descriptors of exactly the files to generate
		if len(req.GetSourceFileDescriptors()) != len(req.GetFileToGenerate()) {
			return "source-retention:source-file-descriptors-count", fmt.Sprintf("%s: %d source_file_descriptors for %d files to generate", at, len(req.GetSourceFileDescriptors()), len(req.GetFileToGenerate())), stats
		}
		sfdSeen := map[string]bool{}
		for _, sfd := range req.GetSourceFileDescriptors() {
			name := sfd.GetName()
			if !isGen[name] || sfdSeen[name] {
				return "source-retention:source-file-descriptors-set", fmt.Sprintf("%s: source_file_descriptors has %s (files to generate %v)", at, name, req.GetFileToGenerate()), stats
			}
			sfdSeen[name] = true
			wn, err := res.norm(by[name].FDP)
			if err != nil {
				return "harness", err.Error(), stats
			}
			gn, err := res.norm(sfd)
			if err != nil {
				return "source-retention:undecodable", fmt.Sprintf("%s: source_file_descriptors %s: %v", at, name, err), stats
			}
			if !proto.Equal(wn, gn) && !sameModuloOptions(wn, gn) {
				return "request-descriptor-not-the-images", fmt.Sprintf("%s: source_file_descriptors entry %s is not the descriptor of that file in the image the requests are built from: %s", at, name, firstDiff(wn.ProtoReflect(), gn.ProtoReflect(), name)), stats
			}
			if !proto.Equal(wn, gn) {
				return "source-retention:source-view-altered", fmt.Sprintf("%s: source_file_descriptors entry %s differs from the image's descriptor (must keep all options): %s", at, name, firstDiff(wn.ProtoReflect(), gn.ProtoReflect(), name)), stats
			}
		}
		// proto_file: runtime view for files to generate, untouched otherwise
		for _, pf := range req.GetProtoFile() {
			name := pf.GetName()
			wn, err := res.norm(by[name].FDP)
			if err != nil {
				return "harness", err.Error(), stats
			}
			gn, err := res.norm(pf)
			if err != nil {
				return "source-retention:undecodable", fmt.Sprintf("%s: proto_file %s: %v", at, name, err), stats
			}
			if !sameModuloOptions(wn, gn) {
				return "request-descriptor-not-the-images", fmt.Sprintf("%s: proto_file entry %s is not the descriptor of that file in the image the requests are built from: %s", at, name, firstDiff(wn.ProtoReflect(), gn.ProtoReflect(), name)), stats
			}
			if !isGen[name] {
				if !proto.Equal(wn, gn) {
					return "source-retention:dependency-altered", fmt.Sprintf("%s: proto_file entry %s is not a file to generate but differs from the image's descriptor: %s", at, name, firstDiff(wn.ProtoReflect(), gn.ProtoReflect(), name)), stats
				}
				continue
			}
			stripped, changed := refStrip(wn.(*descriptorpb.FileDescriptorProto))
			if changed {
				stats["generated-file-with-source-retention-option"]++
			}
			a := proto.Clone(stripped).(*descriptorpb.FileDescriptorProto)
			b := proto.Clone(gn).(*descriptorpb.FileDescriptorProto)
			asci, bsci := a.SourceCodeInfo, b.SourceCodeInfo
			a.SourceCodeInfo, b.SourceCodeInfo = nil, nil
			dropEmptyOptions(a.ProtoReflect())
			dropEmptyOptions(b.ProtoReflect())
			if !proto.Equal(a, b) {
				what := "source-retention:not-stripped"
				full := proto.Clone(wn).(*descriptorpb.FileDescriptorProto)
				full.SourceCodeInfo = nil
				dropEmptyOptions(full.ProtoReflect())
				if !changed || !proto.Equal(full, b) {
					what = "source-retention:runtime-view-wrong"
				}
				return what, fmt.Sprintf("%s: proto_file entry %s (a file to generate) is not the image's descriptor minus its source-retention options: %s", at, name, firstDiff(a.ProtoReflect(), b.ProtoReflect(), name)), stats
			}
			if !proto.Equal(asci, bsci) {
				return "source-retention:source-info", fmt.Sprintf("%s: proto_file entry %s: source_code_info is not the original minus the locations of the removed options (%d vs %d locations)", at, name, len(asci.GetLocation()), len(bsci.GetLocation())), stats
			}
		}
	}
	var extra, missing, twice []string
	for p, n := range gen {
		if n > 1 {
			twice = append(twice, p)
		}
		if !want[p] {
			extra = append(extra, p)
		}
	}
	for p := range want {
		if gen[p] == 0 {
			missing = append(missing, p)
		}
	}
	sort.Strings(extra)
	sort.Strings(missing)
	sort.Strings(twice)
	cfg := fmt.Sprintf("strategy=%s include_imports=%v include_wkt=%v", exp.strategy, exp.includeImports, exp.includeWKT)
	if len(twice) > 0 {
		return "generated-twice", fmt.Sprintf("%s: %v are files to generate in more than one request", cfg, twice), stats
	}
	if len(missing) > 0 && !exp.partial {
		return "not-generated", fmt.Sprintf("%s: %v are never a file to generate (expected %v)", cfg, missing, protogen.SortedKeys(want)), stats
	}
	if len(extra) > 0 {
		what := "generated-unrequested"
		for _, p := range extra {
			if by[p].IsImport && isWKT(p) {
				what = "generated-unrequested:wkt"
			} else if by[p].IsImport {
				what = "generated-unrequested:import"
			}
		}
		return what, fmt.Sprintf("%s: %v are files to generate but were not requested", cfg, extra), stats
	}
	// per-directory requests: one directory's target files per request, each directory in one request
	// (checked after the multiset so that a file generated twice is reported as such)
	if exp.strategy == "directory" {
		for ri, dirsHere := range perReqDirs {
			if len(dirsHere) != 1 {
				return "directory-split", fmt.Sprintf("request %d/%d: target files of %d directories %v in one per-directory request", ri+1, len(reqs), len(dirsHere), protogen.SortedKeys(dirsHere)), stats
			}
			for d := range dirsHere {
				seenDir[d]++
				if seenDir[d] > 1 {
					return "directory-split", fmt.Sprintf("directory %s is spread over several requests", d), stats
				}
			}
		}
	}
	// shared imports between per-directory requests
	if exp.strategy == "directory" && len(reqs) >= 2 {
		cnt := map[string]int{}
		for _, req := range reqs {
			for _, pf := range req.GetProtoFile() {
				if by[pf.GetName()].IsImport && !isWKT(pf.GetName()) {
					cnt[pf.GetName()]++
				}
			}
		}
		for _, n := range cnt {
			if n >= 2 {
				stats["directories-share-non-wkt-import"] = 1
			}
		}
		cntAny := map[string]int{}
		for _, req := range reqs {
			for _, pf := range req.GetProtoFile() {
				cntAny[pf.GetName()]++
			}
		}
		for _, n := range cntAny {
			if n >= 2 {
				stats["directories-share-a-file"] = 1
			}
		}
	}
	return "", "", stats
}

// ---------------------------------------------------------------------------------------------

func (c *ReqCase) build(ctx context.Context) (bufimage.Image, error) {
	specs := map[string]bufx.ModuleSpec{}
	non := map[string]bool{}
	for _, d := range c.NonTarget {
		specs[d] = bufx.ModuleSpec{Target: false}
		non[d] = true
	}
	if len(c.Paths) > 0 {
		for _, m := range c.Src.Mods {
			if non[m.Dir] {
				continue
			}
			spec := bufx.ModuleSpec{}
			for _, p := range c.Paths {
				for f := range c.Src.Files[m.Dir] {
					if f == p || strings.HasPrefix(f, p+"/") {
						spec.Target = true
						spec.TargetPaths = append(spec.TargetPaths, p)
						break
					}
				}
			}
			specs[m.Dir] = spec
		}
	}
	return c.Src.buildSpecs(ctx, specs)
}

func runL1(ctx context.Context, t fataler, r *evid.Recorder, c *ReqCase) {
	img, err := c.build(ctx)
	if err != nil {
		t.Fatalf("harness: generated workspace does not build: %v", err)
	}
	views := viewsOfImage(img)
	res, err := newRefResolver(fdpsOf(views))
	if err != nil {
		t.Fatalf("harness: reference resolver: %v", err)
	}
	// the requests do not own the image: keep a pristine copy to detect in-place modification
	pristine := make([]fileView, len(views))
	for i, v := range views {
		pristine[i] = v
		pristine[i].FDP = proto.Clone(v.FDP).(*descriptorpb.FileDescriptorProto)
	}
	var version *pluginpb.Version
	if c.Version {
		version = &pluginpb.Version{Major: proto.Int32(5), Minor: proto.Int32(29), Patch: proto.Int32(3)}
	}
	var reqSets [][]*pluginpb.CodeGeneratorRequest
	switch c.Strategy {
	case "all":
		one, err := bufimage.ImageToCodeGeneratorRequest(img, c.Param, version, c.IncludeImports, c.IncludeWKT)
		r.Eval()
		if err != nil {
			r.Fail(t, "request-build-failed", fmt.Sprintf("ImageToCodeGeneratorRequest: %v", err), c)
			return
		}
		many, err := bufimage.ImagesToCodeGeneratorRequests([]bufimage.Image{img}, c.Param, version, c.IncludeImports, c.IncludeWKT)
		if err != nil {
			r.Fail(t, "request-build-failed", fmt.Sprintf("ImagesToCodeGeneratorRequests: %v", err), c)
			return
		}
		reqSets = append(reqSets, []*pluginpb.CodeGeneratorRequest{one}, many)
	default:
		images, err := bufimage.ImageByDir(img)
		r.Eval()
		if err != nil {
			r.Fail(t, "request-build-failed", fmt.Sprintf("ImageByDir: %v", err), c)
			return
		}
		many, err := bufimage.ImagesToCodeGeneratorRequests(images, c.Param, version, c.IncludeImports, c.IncludeWKT)
		if err != nil {
			r.Fail(t, "request-build-failed", fmt.Sprintf("ImagesToCodeGeneratorRequests: %v", err), c)
			return
		}
		reqSets = append(reqSets, many)
	}
	exp := expectation{strategy: c.Strategy, includeImports: c.IncludeImports, includeWKT: c.IncludeWKT, param: c.Param, files: pristine}
	var stats map[string]int
	for _, reqs := range reqSets {
		for _, req := range reqs {
			if !proto.Equal(req.GetCompilerVersion(), version) {
				r.Fail(t, "compiler-version", fmt.Sprintf("compiler_version %v, given %v", req.GetCompilerVersion(), version), c)
				return
			}
		}
		key, msg, st := checkRequests(res, exp, reqs)
		if key == "harness" {
			t.Fatalf("harness: %s", msg)
		}
		if key != "" {
			r.Fail(t, key, msg, c)
			return
		}
		stats = st
	}
	// building requests must not modify the image they were built from
	for i, v := range viewsOfImage(img) {
		if !proto.Equal(v.FDP, pristine[i].FDP) {
			r.Fail(t, "source-retention:image-modified", fmt.Sprintf("building the requests modified the image's descriptor of %s", v.Path), c)
			return
		}
	}
	classifyL1(r, "l1", c.Strategy, c.IncludeImports, c.IncludeWKT, views, stats, c.Src.canon()+fmt.Sprint(c.NonTarget, c.Paths))
}

func classifyL1(r *evid.Recorder, kind, strategy string, includeImports, includeWKT bool, views []fileView, stats map[string]int, canon string) {
	r.Class(kind + ":strategy:" + strategy)
	if includeImports {
		r.Class(kind + ":include-imports")
	}
	if includeWKT {
		r.Class(kind + ":include-wkt")
	}
	dirs := map[string]bool{}
	nonWKTImport, wktImport := false, false
	for _, v := range views {
		if !v.IsImport {
			dirs[dirOf(v.Path)] = true
		} else if isWKT(v.Path) {
			wktImport = true
		} else {
			nonWKTImport = true
		}
	}
	if len(dirs) >= 2 {
		r.Class(kind + ":>=2-target-directories")
	}
	for _, v := range views {
		if !v.IsImport && isWKT(v.Path) {
			r.Class(kind + ":target-file-at-well-known-type-path")
			break
		}
	}
	if nonWKTImport {
		r.Class(kind + ":has-non-wkt-import")
	}
	if wktImport {
		r.Class(kind + ":has-wkt-import")
	}
	for k, n := range stats {
		if n > 0 {
			r.Class(kind + ":" + k)
		}
	}
	if strategy == "directory" && includeImports && len(dirs) >= 2 && (stats["directories-share-non-wkt-import"] > 0 || (includeWKT && stats["directories-share-a-file"] > 0)) {
		r.NonTrivial(fmt.Sprintf("%s|%s|%v|%v|%s", kind, strategy, includeImports, includeWKT, canon))
		var paths []string
		for _, v := range views {
			paths = append(paths, pathsOf([]fileView{v})...)
		}
		r.Sample(map[string]any{"kind": kind, "strategy": strategy, "include_imports": includeImports, "include_wkt": includeWKT, "image_files": paths})
	}
}

func genSrc(t *rapid.T, thorough bool) Src {
	cfg := protogen.DefaultConfig()
	cfg.CustomOptions = true
	if thorough {
		cfg.MaxFiles, cfg.MaxPackages = 8, 5
	}
	src := srcOf(protogen.GenWorkspace(t, cfg))
	supplyWKT(t, &src)
	return src
}

// suppliedWKT are workspace copies of well-known-type paths (a vendored protobuf tree, a patched copy):
// wire-compatible with the built-in files, so every generated import of them still links.
var suppliedWKT = map[string]string{
	"google/protobuf/duration.proto":  "syntax = \"proto3\";\npackage google.protobuf;\n// workspace copy.\nmessage Duration {\n  int64 seconds = 1;\n  int32 nanos = 2;\n  string verif_extra = 3;\n}\n",
	"google/protobuf/empty.proto":     "syntax = \"proto3\";\npackage google.protobuf;\n// workspace copy.\nmessage Empty {\n}\n",
	"google/protobuf/timestamp.proto": "syntax = \"proto3\";\npackage google.protobuf;\n// workspace copy.\nmessage Timestamp {\n  int64 seconds = 1;\n  int32 nanos = 2;\n}\n",
}

// supplyWKT puts 1-2 files at well-known-type paths into a module of the workspace (one case in four):
// there they are ordinary source files of that module (targets, or imports if the module is a dependency).
func supplyWKT(t *rapid.T, src *Src) {
	if rapid.IntRange(0, 3).Draw(t, "supply-wkt") != 0 {
		return
	}
	m := src.Mods[rapid.IntRange(0, len(src.Mods)-1).Draw(t, "wkt-module")]
	paths := protogen.SortedPaths(suppliedWKT)
	n := rapid.IntRange(1, 2).Draw(t, "wkt-n")
	for _, p := range rapid.Permutation(paths).Draw(t, "wkt-perm")[:n] {
		src.Files[m.Dir][p] = suppliedWKT[p]
	}
}

func TestRequests(t *testing.T) {
	r := evid.R()
	ctx := context.Background()
	r.Check(t, r.Scale(1000, 40000), 1, func(t *rapid.T) {
		c := &ReqCase{Kind: "l1", Src: genSrc(t, r.Thorough())}
		for i, m := range c.Src.Mods {
			if i > 0 && rapid.IntRange(0, 1).Draw(t, "nontarget") == 0 {
				c.NonTarget = append(c.NonTarget, m.Dir)
			}
		}
		if rapid.Bool().Draw(t, "use-paths") {
			// only some directories are targets; the others can only be imports
			dirs := map[string]bool{}
			for _, m := range c.Src.Mods {
				isNon := false
				for _, d := range c.NonTarget {
					isNon = isNon || d == m.Dir
				}
				if isNon {
					continue
				}
				for f := range c.Src.Files[m.Dir] {
					dirs[dirOf(f)] = true
				}
			}
			ds := protogen.SortedKeys(dirs)
			if len(ds) >= 2 {
				perm := rapid.Permutation(ds).Draw(t, "pathperm")
				c.Paths = append([]string{}, perm[:rapid.IntRange(1, len(ds)-1).Draw(t, "npaths")]...)
				sort.Strings(c.Paths)
			}
		}
		c.Strategy = []string{"directory", "directory", "all"}[rapid.IntRange(0, 2).Draw(t, "strategy")]
		c.IncludeImports = rapid.Bool().Draw(t, "include-imports")
		c.IncludeWKT = rapid.Bool().Draw(t, "include-wkt") // without include-imports it is documented to have no effect
		c.Param = []string{"", "p0", "a=b,c=d"}[rapid.IntRange(0, 2).Draw(t, "param")]
		c.Version = rapid.Bool().Draw(t, "version")
		runL1(ctx, t, r, c)
	})
}
