// C19 — credentials are only sent to the registry they were configured for.
//
// Oracle: a reference parser of the documented BUF_TOKEN grammar written here (not derived from
// static_token_provider.go) + a reference netrc lookup over the *generated* machine list (the
// netrc text is rendered from the list, never parsed by the harness).  Observation points:
//   (i)  the Authorization header set by NewAuthorizationInterceptorProvider(...)(host) around a
//        recording UnaryFunc,
//   (ii) the header received by loopback HTTP servers reached through bufcli.NewConnectClientConfig
//        + connectclient.Make (the real CLI wiring, env provider first, netrc second).
package c19

import (
	"context"
	"fmt"
	"log/slog"
	"io"
	"net/http"
	"net/http/httptest"
	"os"
	"path/filepath"
	"sort"
	"strings"
	"sync"
	"testing"

	"buf.build/gen/go/bufbuild/registry/connectrpc/go/buf/registry/module/v1/modulev1connect"
	modulev1 "buf.build/gen/go/bufbuild/registry/protocolbuffers/go/buf/registry/module/v1"
	"connectrpc.com/connect"
	"github.com/bufbuild/buf/private/buf/bufcli"
	"github.com/bufbuild/buf/private/bufpkg/bufconnect"
	"github.com/bufbuild/buf/private/pkg/app"
	"github.com/bufbuild/buf/private/pkg/app/appext"
	"github.com/bufbuild/buf/private/pkg/connectclient"
	"github.com/bufbuild/buf/private/pkg/netrc"
	"github.com/bufbuild/bufverif/internal/evid"
	"pgregory.net/rapid"
)

func TestMain(m *testing.M) { evid.Main(m, "C19") }

// ---------------------------------------------------------------------------------------------
// reference model

type refTokens struct {
	rejected bool
	single   string            // host-less token ("" = none)
	byHost   map[string]string // host -> token
	order    []string          // hosts in configuration order
}

// refParse implements the documented grammar:
//
//	BUF_TOKEN := "" | token | entry ("," entry)*      entry := token "@" host
//
// "@" and "," are illegal inside a single token; ":" and "," are illegal in the token part of an
// entry; empty parts and repeated hosts are errors.
func refParse(s string) refTokens {
	if s == "" {
		return refTokens{}
	}
	if !strings.ContainsAny(s, ",@") {
		return refTokens{single: s}
	}
	out := refTokens{byHost: map[string]string{}}
	start := 0
	for i := 0; i <= len(s); i++ {
		if i < len(s) && s[i] != ',' {
			continue
		}
		entry := s[start:i]
		start = i + 1
		at := strings.IndexByte(entry, '@')
		if at <= 0 || at == len(entry)-1 || strings.IndexByte(entry[at+1:], '@') >= 0 {
			return refTokens{rejected: true}
		}
		tok, host := entry[:at], entry[at+1:]
		if strings.ContainsAny(tok, ":,") {
			return refTokens{rejected: true}
		}
		if _, dup := out.byHost[host]; dup {
			return refTokens{rejected: true}
		}
		out.byHost[host] = tok
		out.order = append(out.order, host)
	}
	return out
}

func (r refTokens) tokenFor(host string) string {
	if r.single != "" {
		return r.single
	}
	return r.byHost[host]
}

type machine struct {
	Name     string `json:"name"` // "default" for the default entry
	Login    string `json:"login"`
	Password string `json:"password"`
}

func refNetrc(ms []machine, host string) string {
	for _, m := range ms {
		if m.Name == host && m.Name != "default" {
			return m.Password
		}
	}
	for _, m := range ms {
		if m.Name == "default" {
			return m.Password
		}
	}
	return ""
}

func renderNetrc(ms []machine) string {
	var b strings.Builder
	for _, m := range ms {
		if m.Name == "default" {
			fmt.Fprintf(&b, "default login %s password %s\n", m.Login, m.Password)
		} else {
			fmt.Fprintf(&b, "machine %s login %s password %s\n", m.Name, m.Login, m.Password)
		}
	}
	return b.String()
}

// ---------------------------------------------------------------------------------------------
// observation (i): the interceptor in isolation

type fakeReq struct {
	connect.AnyRequest
	h http.Header
}

func (f *fakeReq) Header() http.Header { return f.h }

// observeInterceptor returns the Authorization header the interceptor for `address` sets.
func observeInterceptor(provider func(string) connect.UnaryInterceptorFunc, address string) string {
	var got string
	next := connect.UnaryFunc(func(ctx context.Context, req connect.AnyRequest) (connect.AnyResponse, error) {
		got = req.Header().Get("Authorization")
		return nil, nil
	})
	req := &fakeReq{h: http.Header{}}
	_, _ = provider(address)(next)(context.Background(), req)
	return got
}

func bearer(tok string) string {
	if tok == "" {
		return ""
	}
	return "Bearer " + tok
}

type tokCase struct {
	BufToken string    `json:"buf_token"`
	Netrc    []machine `json:"netrc,omitempty"`
	Hosts    []string  `json:"hosts"`
}

// checkTokenString checks one BUF_TOKEN string against every host; returns key,msg on falsification.
func checkTokenString(s string, hosts []string) (string, string) {
	ref := refParse(s)
	tp, err := bufconnect.NewTokenProviderFromContainer(app.NewEnvContainer(map[string]string{"BUF_TOKEN": s}))
	tp2, err2 := bufconnect.NewTokenProviderFromString(s)
	if (err != nil) != (err2 != nil) {
		return "env-vs-string-disagree", fmt.Sprintf("BUF_TOKEN=%q: FromContainer err=%v, FromString err=%v", s, err, err2)
	}
	if ref.rejected {
		if err == nil {
			return "malformed-accepted", fmt.Sprintf("BUF_TOKEN=%q is malformed per the documented grammar but a provider was built", s)
		}
		return "", ""
	}
	if err != nil {
		return "wellformed-rejected", fmt.Sprintf("BUF_TOKEN=%q is well-formed per the documented grammar but was rejected: %v", s, err)
	}
	all := append(append([]string{}, hosts...), ref.order...)
	for _, p := range []bufconnect.TokenProvider{tp, tp2} {
		ip := bufconnect.NewAuthorizationInterceptorProvider(p)
		for _, h := range all {
			want := bearer(ref.tokenFor(h))
			got := observeInterceptor(ip, h)
			if got != want {
				key := "wrong-token"
				if got != "" && want == "" {
					key = "token-leaked-to-other-host"
				}
				return key, fmt.Sprintf("BUF_TOKEN=%q host=%q: Authorization=%q want %q", s, h, got, want)
			}
			if again := observeInterceptor(ip, h); again != got {
				return "nondeterministic", fmt.Sprintf("BUF_TOKEN=%q host=%q: %q then %q", s, h, got, again)
			}
		}
	}
	return "", ""
}

var alphabet = []byte{'t', 'u', 'h', '@', ',', ':', '.'}
var fixedHosts = []string{"h", "hh", "h.h", "other", "t", "u", ""}

// TestExhaustive enumerates every BUF_TOKEN string over the 7-symbol alphabet up to the length bound.
func TestExhaustive(t *testing.T) {
	r := evid.R()
	defer r.Begin(t)()
	maxLen := r.Pick(6, 7)
	r.SetExhaustive(true)
	r.Extra("exhaustive_alphabet", string(alphabet))
	r.Extra("exhaustive_max_len", maxLen)
	idx := 0
	buf := make([]byte, 0, maxLen)
	var rec func()
	failed := false
	rec = func() {
		if failed {
			return
		}
		idx++
		if r.Mine(idx) {
			s := string(buf)
			ref := refParse(s)
			r.Eval()
			if ref.rejected {
				r.Class("malformed")
			} else if ref.single != "" {
				r.Class("single")
			} else if len(ref.order) > 0 {
				r.Class(fmt.Sprintf("hostkeyed-%d", len(ref.order)))
			} else {
				r.Class("empty")
			}
			if len(ref.order) >= 2 {
				r.NonTrivial(s)
				r.Sample(map[string]any{"buf_token": s, "ref_hosts": ref.order})
			}
			if key, msg := checkTokenString(s, fixedHosts); key != "" {
				if !r.Fail(t, key, msg, tokCase{BufToken: s, Hosts: fixedHosts}) {
					failed = true
				}
				return
			}
		}
		if len(buf) == maxLen {
			return
		}
		for _, c := range alphabet {
			buf = append(buf, c)
			rec()
			buf = buf[:len(buf)-1]
		}
	}
	rec()
}

// ---------------------------------------------------------------------------------------------
// random: longer realistic strings + netrc, provider order env-then-netrc

var (
	genTok  = rapid.StringMatching(`[a-zA-Z0-9_\-\.:]{1,12}`)
	genHost = rapid.OneOf(
		rapid.SampledFrom([]string{"buf.build", "buf.example.com", "example.com", "buf.build:443", "localhost:8080", "h", "hh", "h.h", "build", "xbuf.build", "buf.build.evil.com", "BUF.BUILD"}),
		rapid.StringMatching(`[a-z]{1,6}(\.[a-z]{1,4}){0,2}(:[0-9]{2,4})?`),
	)
	genWord = rapid.StringMatching(`[a-zA-Z0-9_\-\.]{1,10}`)
)

func genTokenString(t *rapid.T) string {
	switch rapid.IntRange(0, 9).Draw(t, "shape") {
	case 0:
		return ""
	case 1:
		return genTok.Draw(t, "single")
	case 2: // arbitrary noise over the separators
		return rapid.StringMatching(`[tuh@,:\.]{0,14}`).Draw(t, "noise")
	default:
		n := rapid.IntRange(1, 4).Draw(t, "n")
		parts := make([]string, n)
		for i := range parts {
			switch rapid.IntRange(0, 11).Draw(t, "entryshape") {
			case 0:
				parts[i] = genTok.Draw(t, "tok") // missing @host
			case 1:
				parts[i] = "@" + genHost.Draw(t, "host")
			case 2:
				parts[i] = genTok.Draw(t, "tok") + "@"
			case 3:
				parts[i] = genTok.Draw(t, "tok") + "@" + genHost.Draw(t, "host") + "@" + genHost.Draw(t, "host2")
			default:
				parts[i] = genTok.Draw(t, "tok") + "@" + genHost.Draw(t, "host")
			}
		}
		if n > 1 && rapid.IntRange(0, 5).Draw(t, "dup") == 0 {
			// repeated host
			if at := strings.IndexByte(parts[0], '@'); at >= 0 {
				parts[n-1] = genTok.Draw(t, "tokdup") + parts[0][at:]
			}
		}
		return strings.Join(parts, ",")
	}
}

func genNetrc(t *rapid.T) []machine {
	n := rapid.IntRange(0, 3).Draw(t, "machines")
	var ms []machine
	seen := map[string]bool{}
	for i := 0; i < n; i++ {
		name := genHost.Draw(t, "mname")
		if seen[name] {
			continue
		}
		seen[name] = true
		ms = append(ms, machine{Name: name, Login: genWord.Draw(t, "login"), Password: genWord.Draw(t, "pw")})
	}
	if rapid.IntRange(0, 2).Draw(t, "default") == 0 {
		// the default entry may stand anywhere in the file: a machine entry for the host still wins
		d := machine{Name: "default", Login: genWord.Draw(t, "dlogin"), Password: genWord.Draw(t, "dpw")}
		at := 0
		for at < len(ms) && rapid.Bool().Draw(t, "dpos") {
			at++
		}
		ms = append(ms[:at], append([]machine{d}, ms[at:]...)...)
	}
	return ms
}

func hostsFor(t *rapid.T, ref refTokens, ms []machine) []string {
	set := map[string]bool{"buf.build": true, "other.example": true}
	for _, h := range ref.order {
		set[h] = true
		set["x"+h] = true   // suffix-match trap
		set[h+".evil"] = true // prefix-match trap
	}
	for _, m := range ms {
		if m.Name != "default" {
			set[m.Name] = true
		}
	}
	for i := 0; i < 2; i++ {
		set[genHost.Draw(t, "reqhost")] = true
	}
	var hs []string
	for h := range set {
		hs = append(hs, h)
	}
	sort.Strings(hs)
	return hs
}

func expected(ref refTokens, ms []machine, host string) string {
	if tok := ref.tokenFor(host); tok != "" {
		return tok // first configured source wins
	}
	return refNetrc(ms, host)
}

func TestRandomProviders(t *testing.T) {
	r := evid.R()
	dir := t.TempDir()
	n := 0
	r.Check(t, r.Scale(12000, 150000), 1, func(t *rapid.T) {
		n++
		s := genTokenString(t)
		ms := genNetrc(t)
		ref := refParse(s)
		hosts := hostsFor(t, ref, ms)
		c := tokCase{BufToken: s, Netrc: ms, Hosts: hosts}
		r.Eval()
		if key, msg := checkTokenString(s, hosts); key != "" {
			r.Fail(t, key, msg, c)
			return
		}
		if ref.rejected {
			r.Class("random-malformed")
			return
		}
		r.Class("random-wellformed")
		netrcPath := filepath.Join(dir, fmt.Sprintf("netrc-%d", n))
		if err := os.WriteFile(netrcPath, []byte(renderNetrc(ms)), 0o600); err != nil {
			t.Skip("cannot write netrc")
		}
		defer os.Remove(netrcPath)
		env := app.NewEnvContainer(map[string]string{"BUF_TOKEN": s, "NETRC": netrcPath, "HOME": dir})
		envTP, err := bufconnect.NewTokenProviderFromContainer(env)
		if err != nil {
			r.Fail(t, "wellformed-rejected", fmt.Sprintf("BUF_TOKEN=%q rejected: %v", s, err), c)
			return
		}
		ip := bufconnect.NewAuthorizationInterceptorProvider(envTP, bufconnect.NewNetrcTokenProvider(env, netrc.GetMachineForName))
		nontrivial := false
		for _, h := range hosts {
			want := bearer(expected(ref, ms, h))
			got := observeInterceptor(ip, h)
			if got != want {
				key := "wrong-token"
				if got != "" {
					key = "token-leaked-to-other-host"
				}
				r.Fail(t, key, fmt.Sprintf("BUF_TOKEN=%q netrc=%v host=%q: Authorization=%q want %q", s, ms, h, got, want), c)
				return
			}
			if len(ref.order) >= 2 && h != ref.order[0] && ref.byHost[h] != "" {
				nontrivial = true
			}
		}
		// the same two sources listed the other way round: the first configured source still wins
		rip := bufconnect.NewAuthorizationInterceptorProvider(bufconnect.NewNetrcTokenProvider(env, netrc.GetMachineForName), envTP)
		for _, h := range hosts {
			want := refNetrc(ms, h)
			if want == "" {
				want = ref.tokenFor(h)
			}
			if got := observeInterceptor(rip, h); got != bearer(want) {
				key := "wrong-token"
				if got != "" {
					key = "first-source-does-not-win"
				}
				r.Fail(t, key, fmt.Sprintf("providers listed as [netrc, BUF_TOKEN]: BUF_TOKEN=%q netrc=%v host=%q: Authorization=%q want %q", s, ms, h, got, bearer(want)), c)
				return
			}
		}
		if len(ms) > 0 {
			r.Class("with-netrc")
		}
		if nontrivial {
			r.NonTrivial(fmt.Sprintf("%s|%v", s, ms))
			r.Sample(c)
		}
	})
}

// ---------------------------------------------------------------------------------------------
// observation (ii): real CLI wiring talking to two loopback servers

type recServer struct {
	srv  *httptest.Server
	mu   sync.Mutex
	auth []string
}

func newRecServer() *recServer {
	rs := &recServer{}
	rs.srv = httptest.NewServer(http.HandlerFunc(func(w http.ResponseWriter, req *http.Request) {
		rs.mu.Lock()
		rs.auth = append(rs.auth, req.Header.Get("Authorization"))
		rs.mu.Unlock()
		_, _ = io.Copy(io.Discard, req.Body)
		w.WriteHeader(http.StatusNotFound)
	}))
	return rs
}

func (rs *recServer) take() []string {
	rs.mu.Lock()
	defer rs.mu.Unlock()
	a := rs.auth
	rs.auth = nil
	return a
}

func (rs *recServer) addr() string { return strings.TrimPrefix(rs.srv.URL, "http://") }

func TestLoopback(t *testing.T) {
	r := evid.R()
	home := t.TempDir()
	if err := os.MkdirAll(filepath.Join(home, ".config", "buf"), 0o755); err != nil {
		t.Fatal(err)
	}
	// plain HTTP to the loopback servers
	if err := os.WriteFile(filepath.Join(home, ".config", "buf", "config.yaml"), []byte("version: v1\ntls:\n  use: \"false\"\n"), 0o644); err != nil {
		t.Fatal(err)
	}
	a, b := newRecServer(), newRecServer()
	defer a.srv.Close()
	defer b.srv.Close()
	servers := map[string]*recServer{a.addr(): a, b.addr(): b}
	addrs := []string{a.addr(), b.addr()}
	n := 0
	r.Check(t, r.Scale(600, 6000), 2, func(t *rapid.T) {
		n++
		// entries: each server address may get a token in BUF_TOKEN and/or in netrc; plus decoys
		var parts []string
		var ms []machine
		single := rapid.IntRange(0, 5).Draw(t, "single") == 0
		if single {
			parts = []string{genWord.Draw(t, "singletok")}
		} else {
			for i, ad := range addrs {
				if rapid.Bool().Draw(t, fmt.Sprintf("env%d", i)) {
					parts = append(parts, genWord.Draw(t, "tok")+"@"+ad)
				}
			}
			for i := 0; i < rapid.IntRange(0, 2).Draw(t, "decoys"); i++ {
				parts = append(parts, genWord.Draw(t, "dtok")+"@"+genHost.Draw(t, "dhost"))
			}
			// shuffle deterministically through rapid
			parts = rapid.Permutation(parts).Draw(t, "perm")
		}
		s := strings.Join(parts, ",")
		for i, ad := range addrs {
			if rapid.IntRange(0, 2).Draw(t, fmt.Sprintf("netrc%d", i)) == 0 {
				ms = append(ms, machine{Name: ad, Login: "l", Password: genWord.Draw(t, "npw")})
			}
		}
		if rapid.IntRange(0, 3).Draw(t, "ndefault") == 0 {
			d := machine{Name: "default", Login: "l", Password: genWord.Draw(t, "dpw")}
			if rapid.Bool().Draw(t, "dfirst") {
				ms = append([]machine{d}, ms...)
			} else {
				ms = append(ms, d)
			}
		}
		ref := refParse(s)
		c := tokCase{BufToken: s, Netrc: ms, Hosts: addrs}
		netrcPath := filepath.Join(home, fmt.Sprintf("netrc-%d", n))
		if err := os.WriteFile(netrcPath, []byte(renderNetrc(ms)), 0o600); err != nil {
			t.Skip("cannot write netrc")
		}
		defer os.Remove(netrcPath)
		envMap := map[string]string{"BUF_TOKEN": s, "NETRC": netrcPath, "HOME": home}
		base := app.NewContainer(envMap, strings.NewReader(""), io.Discard, io.Discard, "buf")
		nc, err := appext.NewNameContainer(base, "buf")
		if err != nil {
			t.Fatalf("harness: %v", err)
		}
		container := appext.NewContainer(nc, slog.New(slog.NewTextHandler(io.Discard, nil)))
		cfg, err := bufcli.NewConnectClientConfig(container)
		r.Eval()
		if ref.rejected {
			if err == nil {
				r.Fail(t, "malformed-accepted", fmt.Sprintf("BUF_TOKEN=%q malformed but client config built", s), c)
			}
			r.Class("loopback-malformed")
			return
		}
		if err != nil {
			r.Fail(t, "wellformed-rejected", fmt.Sprintf("BUF_TOKEN=%q: %v", s, err), c)
			return
		}
		for _, ad := range addrs {
			client := connectclient.Make(cfg, ad, modulev1connect.NewModuleServiceClient)
			_, _ = client.GetModules(context.Background(), connect.NewRequest(&modulev1.GetModulesRequest{}))
			want := bearer(expected(ref, ms, ad))
			for other, srv := range servers {
				got := srv.take()
				if other == ad {
					if len(got) != 1 || got[0] != want {
						key := "wrong-token"
						if len(got) == 1 && got[0] != "" {
							key = "token-leaked-to-other-host"
						}
						r.Fail(t, key, fmt.Sprintf("BUF_TOKEN=%q netrc=%v request to %s: server saw Authorization=%q want %q", s, ms, ad, got, want), c)
						return
					}
				} else if len(got) != 0 {
					r.Fail(t, "request-to-wrong-server", fmt.Sprintf("request for %s reached %s", ad, other), c)
					return
				}
			}
		}
		r.Class("loopback-wellformed")
		if len(ref.order) >= 2 && ref.byHost[addrs[1]] != "" {
			r.NonTrivial(fmt.Sprintf("%s|%v", s, ms))
			r.Sample(map[string]any{"buf_token_shape": redactPorts(s, addrs), "netrc_machines": len(ms)})
		}
	})
}

func redactPorts(s string, addrs []string) string {
	for i, a := range addrs {
		s = strings.ReplaceAll(s, a, fmt.Sprintf("<server%d>", i))
	}
	return s
}

// TestReplay re-runs the oracle on a saved case (no generator).
func TestReplay(t *testing.T) {
	var c tokCase
	ok, err := evid.ReplayCase(&c)
	if !ok {
		t.Skip("no VERIF_REPLAY")
	}
	if err != nil {
		t.Fatal(err)
	}
	r := evid.R()
	defer r.Begin(t)()
	r.Eval()
	if key, msg := checkTokenString(c.BufToken, c.Hosts); key != "" {
		r.Fail(t, key, msg, c)
	}
}

// TestConcurrentClients: clients for two registries are created and used concurrently from ONE client
// configuration; each loopback server must only ever see the token configured for its own address.
func TestConcurrentClients(t *testing.T) {
	r := evid.R()
	home := t.TempDir()
	if err := os.MkdirAll(filepath.Join(home, ".config", "buf"), 0o755); err != nil {
		t.Fatal(err)
	}
	if err := os.WriteFile(filepath.Join(home, ".config", "buf", "config.yaml"), []byte("version: v1\ntls:\n  use: \"false\"\n"), 0o644); err != nil {
		t.Fatal(err)
	}
	a, b := newRecServer(), newRecServer()
	defer a.srv.Close()
	defer b.srv.Close()
	r.Check(t, r.Scale(160, 2000), 3, func(t *rapid.T) {
		tokA, tokB := genWord.Draw(t, "tokA"), genWord.Draw(t, "tokB")
		if tokA == tokB {
			tokB += "x"
		}
		workers := rapid.IntRange(2, 8).Draw(t, "workers")
		rounds := rapid.IntRange(1, 6).Draw(t, "rounds")
		s := tokA + "@" + a.addr() + "," + tokB + "@" + b.addr()
		c := tokCase{BufToken: "<tokA>@<server0>,<tokB>@<server1>", Hosts: []string{fmt.Sprintf("workers=%d rounds=%d", workers, rounds)}}
		envMap := map[string]string{"BUF_TOKEN": s, "HOME": home, "NETRC": filepath.Join(home, "no-netrc")}
		base := app.NewContainer(envMap, strings.NewReader(""), io.Discard, io.Discard, "buf")
		nc, err := appext.NewNameContainer(base, "buf")
		if err != nil {
			t.Fatalf("harness: %v", err)
		}
		cfg, err := bufcli.NewConnectClientConfig(appext.NewContainer(nc, slog.New(slog.NewTextHandler(io.Discard, nil))))
		if err != nil {
			t.Fatalf("harness: %v", err)
		}
		a.take()
		b.take()
		var wg sync.WaitGroup
		for w := 0; w < workers; w++ {
			wg.Add(1)
			go func(w int) {
				defer wg.Done()
				for i := 0; i < rounds; i++ {
					addr := a.addr()
					if (w+i)%2 == 1 {
						addr = b.addr()
					}
					client := connectclient.Make(cfg, addr, modulev1connect.NewModuleServiceClient)
					_, _ = client.GetModules(context.Background(), connect.NewRequest(&modulev1.GetModulesRequest{}))
				}
			}(w)
		}
		wg.Wait()
		r.Eval()
		for _, got := range a.take() {
			if got != bearer(tokA) {
				r.Fail(t, "token-leaked-to-other-host", fmt.Sprintf("concurrent clients (%d workers x %d rounds): server A saw Authorization=%q, its token is %q (B's is %q)", workers, rounds, got, tokA, tokB), c)
				return
			}
		}
		for _, got := range b.take() {
			if got != bearer(tokB) {
				r.Fail(t, "token-leaked-to-other-host", fmt.Sprintf("concurrent clients (%d workers x %d rounds): server B saw Authorization=%q, its token is %q (A's is %q)", workers, rounds, got, tokB, tokA), c)
				return
			}
		}
		r.Class("concurrent-clients")
		r.NonTrivial(fmt.Sprintf("conc|%d|%d|%s|%s", workers, rounds, tokA, tokB))
	})
}
