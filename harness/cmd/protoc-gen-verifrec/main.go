// protoc-gen-verifrec is the recording / scripted protoc plugin used by check C17.
//
//  1. The CodeGeneratorRequest it receives on stdin is stored verbatim (binary) as a new file
//     req-*.binpb in the directory named by $VERIFREC_DIR (one file per invocation).
//  2. It answers with the scripted response for the request's `parameter` (the plugin `opt`), read
//     from the JSON file named by $VERIFREC_SCRIPT:
//
//     { "<opt>": { "files": [ {"name": "...", "content": "...", "insertion_point": "...", "no_name": false} ],
//     "error": "", "no_features": false } }
//
//     In name and content, "{first}" is replaced by the first file_to_generate with '/' and '.' turned
//     into '_' ("none" if the request has no file to generate). An opt without script entry gets an
//     empty response. "no_name" omits the name field (protoc's "continuation of the previous file").
package main

import (
	"encoding/json"
	"fmt"
	"io"
	"os"
	"strings"

	"google.golang.org/protobuf/proto"
	"google.golang.org/protobuf/types/descriptorpb"
	"google.golang.org/protobuf/types/pluginpb"
)

type scriptFile struct {
	Name           string `json:"name"`
	Content        string `json:"content"`
	InsertionPoint string `json:"insertion_point,omitempty"`
	NoName         bool   `json:"no_name,omitempty"`
}

type script struct {
	Files      []scriptFile `json:"files"`
	Error      string       `json:"error,omitempty"`
	NoFeatures bool         `json:"no_features,omitempty"`
}

func main() {
	if err := run(); err != nil {
		fmt.Fprintln(os.Stderr, "protoc-gen-verifrec:", err)
		os.Exit(1)
	}
}

func run() error {
	data, err := io.ReadAll(os.Stdin)
	if err != nil {
		return err
	}
	if dir := os.Getenv("VERIFREC_DIR"); dir != "" {
		f, err := os.CreateTemp(dir, "req-*.binpb.tmp")
		if err != nil {
			return err
		}
		if _, err := f.Write(data); err != nil {
			return err
		}
		if err := f.Close(); err != nil {
			return err
		}
		// complete files only: the harness reads req-*.binpb
		if err := os.Rename(f.Name(), strings.TrimSuffix(f.Name(), ".tmp")); err != nil {
			return err
		}
	}
	req := &pluginpb.CodeGeneratorRequest{}
	if err := proto.Unmarshal(data, req); err != nil {
		return fmt.Errorf("request does not parse: %w", err)
	}
	scripts := map[string]script{}
	if path := os.Getenv("VERIFREC_SCRIPT"); path != "" {
		raw, err := os.ReadFile(path)
		if err != nil {
			return err
		}
		if err := json.Unmarshal(raw, &scripts); err != nil {
			return fmt.Errorf("script %s: %w", path, err)
		}
	}
	sc := scripts[req.GetParameter()]
	first := "none"
	if len(req.GetFileToGenerate()) > 0 {
		first = strings.NewReplacer("/", "_", ".", "_").Replace(req.GetFileToGenerate()[0])
	}
	sub := func(s string) string { return strings.ReplaceAll(s, "{first}", first) }
	resp := &pluginpb.CodeGeneratorResponse{}
	if !sc.NoFeatures {
		resp.SupportedFeatures = proto.Uint64(uint64(pluginpb.CodeGeneratorResponse_FEATURE_PROTO3_OPTIONAL) | uint64(pluginpb.CodeGeneratorResponse_FEATURE_SUPPORTS_EDITIONS))
		resp.MinimumEdition = proto.Int32(int32(descriptorpb.Edition_EDITION_PROTO2))
		resp.MaximumEdition = proto.Int32(int32(descriptorpb.Edition_EDITION_2023))
	}
	if sc.Error != "" {
		resp.Error = proto.String(sc.Error)
	}
	for _, sf := range sc.Files {
		f := &pluginpb.CodeGeneratorResponse_File{Content: proto.String(sub(sf.Content))}
		if !sf.NoName {
			f.Name = proto.String(sub(sf.Name))
		}
		if sf.InsertionPoint != "" {
			f.InsertionPoint = proto.String(sf.InsertionPoint)
		}
		resp.File = append(resp.File, f)
	}
	out, err := proto.Marshal(resp)
	if err != nil {
		return err
	}
	_, err = os.Stdout.Write(out)
	return err
}
