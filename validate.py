#!/opt/veriftools/pyvenv/bin/python
import json, jsonschema, glob, sys
jsonschema.validate(json.load(open('/verif/MANIFEST.json')), json.load(open('/root/.vp/MANIFEST.schema.json')))
s = json.load(open('/root/.vp/EVIDENCE.schema.json'))
for f in sorted(glob.glob('/verif/evidence/C*.json')):
    try:
        jsonschema.validate(json.load(open(f)), s)
    except Exception as e:
        print("INVALID", f, str(e)[:300]); sys.exit(1)
print("manifest + evidence valid")
