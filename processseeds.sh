#!/bin/bash
# confirm + evaluate every delivered seed that has not been filed yet
cd /verif
for d in /tmp/seedout/*; do
  s=$(basename $d)
  [ -f $d/patch.diff ] && [ -f $d/meta.json ] || continue
  [ -f seeded/$s/meta.json ] && grep -q '"detection"' seeded/$s/meta.json && continue
  ./confirmseed.py $s 2>&1 | tail -1
  id=${s%-*}
  ./evalseed.sh $s $id 2>&1 | grep -v KNOWN | tail -3 | cut -c1-360
done
