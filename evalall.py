#!/usr/bin/env python3
"""Run every filed seeded change against its check(s) (scratch worktree per seed) and print one line each.
usage: evalall.py [-j N] [seed ...]   -- results also go to seeded/DETECTION.tsv"""
import json, os, re, subprocess, sys, glob
from concurrent.futures import ThreadPoolExecutor
os.chdir('/verif')
# checks other than the seed's own property that are also run (the change is visible through them)
ALSO = {'C09-b': ['C15'], 'C11-b': ['C02'], 'C04-b': ['C03']}
args = sys.argv[1:]
j = 3
if args[:1] == ['-j']:
    j = int(args[1]); args = args[2:]
seeds = args or sorted(os.path.basename(os.path.dirname(p)) for p in glob.glob('seeded/*/patch.diff'))
def one(seed):
    prop = seed.split('-')[0]
    checks = [prop] + ALSO.get(seed, [])
    out = subprocess.run(['./evalseed.sh', seed] + checks, capture_output=True, text=True).stdout
    res, cur = [], None
    for line in out.splitlines():
        m = re.match(r'--- (C\d\d) against', line)
        if m:
            cur = {'check': m.group(1), 'verdict': '?', 'keys': []}; res.append(cur); continue
        if cur is None:
            continue
        if line.startswith(('OK', 'VIOLATION', 'INCONCLUSIVE')) and cur['verdict'] in ('?',):
            cur['verdict'] = line.split()[0]
        m = re.search(r'key=(\S+)', line)
        if m and m.group(1) not in cur['keys']:
            cur['keys'].append(m.group(1))
    if not res:
        res = [{'check': prop, 'verdict': 'ERROR:' + out.strip()[-200:], 'keys': []}]
    return seed, res
rows = []
with ThreadPoolExecutor(j) as ex:
    for seed, res in ex.map(one, seeds):
        for r in res:
            line = f"{seed}\t{r['check']}\t{r['verdict']}\t{','.join(r['keys'][:3])}"
            print(line, flush=True); rows.append(line)
if not args:
    open('seeded/DETECTION.tsv', 'w').write('seed\tcheck\tverdict\tkeys\n' + '\n'.join(rows) + '\n')
